#!/usr/bin/env python3
"""Generates /verif/MANIFEST.json from the table below (kept here so the manifest is always valid JSON)."""
import json
import os

VERIF = os.path.dirname(os.path.dirname(os.path.abspath(__file__)))

ALL = ["C%02d" % i for i in range(1, 21)]

# pid -> (design_ref, level text, level_note, technique)
CHECKS = {
    "C01": ("DESIGN.md 2/C01",
            "Explicit-state search over the real CombiScheme: every (old,active) index-set state reachable by <=D effective "
            "refinements from every (d<=4,lmin<=2,lmax<=lmin+3) start; in every state every level vector of the surrounding box is "
            "requested; lock-step with a reference index-set model plus all invariants of the statement on every successor.",
            "Bounds d<=4, lmin<=2, lmax-lmin<=3, depth per configuration (see evidence.bounds_completed). Reference model "
            "mc/refmodels/indexset.py is trusted.",
            "explicit-state BFS over real transition function, reference-model lock-step"),
    "C02": ("DESIGN.md 2/C02",
            "Complete lattice d x (1<=lmin<=lmax) x box x boundary of StandardCombi+TrapezoidalGrid; per configuration ALL nodal unit "
            "functions (reproduction at every sparse-grid point, point-wise and via interpolate_grid) and ALL hierarchical hats of the "
            "sparse-grid space (exact integral, exact off-grid interpolation, combined quadrature rule) are decided, plus point-set, "
            "coefficient-sum and point-count equalities against a reference sparse grid; object reuse: all pairs/triples of level ranges and "
            "every public plot/print/export helper called between two operations on ONE object.",
            "d<=3 (thorough 4), lmax<=5/4/3; float-exact boxes plus 11 boxes with non-dyadic bounds (point sets matched as a bijection within 16 ulp); tolerance 1e-12.",
            "exhaustive configuration lattice, basis-function oracle (linearity)"),
    "C03": ("DESIGN.md 2/C03",
            "Explicit-state BFS over refinement-decision histories of the real dimension-wise strategy (scripted ErrorCalculator, "
            "real adaptive loop/refine): every state reachable by <=D steps with <=s intervals chosen per step, for all coarsening "
            "versions, rebalancing and boundary flags and the rarely used constructor options (dim_adaptive=False, Chebyshev points, volume weighting); 1D-list laws, per-point coefficient sums and reproduction of all nodal unit "
            "functions checked in every state.",
            "Bounds d<=3 (incl. d=3 from (1,3): graded depth 3, thorough also the complete depth-2 layers), D<=2..5, s<=2, domain [0,1]^d and one far from the origin; canonical form = intervals+levels+coarsening, lmax, index sets.",
            "explicit-state BFS over decision histories replayed on the real objects"),
    "C04": ("DESIGN.md 2/C04",
            "BFS over refinement histories of the dimension-wise, extend-split and cell strategies with a basis of the claimed "
            "exactness space carried as extra integrand components (exact integrals/interpolants compared in every state), plus "
            "complete runs with the library's own estimator on a menu of refinement-driving integrands checked at every evaluation.",
            "Bounds d<=3, D<=2..3, s<=2; float-exact boxes; tolerance 1e-11. Known findings: rebalancing rotation and dim_adaptive=False lose the initial space.",
            "explicit-state BFS over decision histories, basis-function oracle"),
    "C05": ("DESIGN.md 2/C05",
            "Complete lattice of standard-combination configurations (d<=3, all lmin<=lmax, 6 grid families), BFS over scripted "
            "surplus rankings of the dimension-adaptive driver and BFS over refinement-decision histories of the dimension-wise and "
            "extend-split (version 0) strategies; in every state the reported value is compared with the coefficient-weighted sum "
            "over fresh grid objects, with evaluate_final_combi(), with the same history run with reevaluate_at_end=True / "
            "recalculate_frequently=True, with the same history ended by its time budget (virtual clock seam), with solutions_storage and, at EVERY evaluation, with sum w f(p) over get_points_and_weights(); "
            "other grid families (high-order, Lagrange, B-spline, Romberg, Simpson) under the dimension-wise and extend-split strategies; every earlier stop of an extend-split history re-evaluated (evaluate_final_combi) and then continued; every dimension-adaptive script also ended by a real point budget.",
            "Bounds d<=3, D<=2..3, s<=2; relative tolerance 1e-11; integrand menu carried as one vector-valued function.",
            "explicit-state BFS over decision histories + exhaustive configuration lattice, differential oracle"),
    "C06": ("DESIGN.md 2/C06",
            "BFS over histories of benefit assignments (ties, zeros, values exactly at / just below the margin) on the real dimension-wise "
            "strategy; tiling, level agreement, tree law, coarsening/lmax relations and the independent margin-selection rule "
            "checked after every refine().",
            "Bounds d<=3, D<=2..4, margins {0.5,0.9,1.0}, safety factors {0,0.1,0.5}.",
            "explicit-state BFS over benefit-assignment histories"),
    "C07": ("DESIGN.md 2/C07",
            "BFS over decision histories of the real extend-split strategy (areas refined, extend/split in automatic mode, split "
            "dimensions in single-dimension mode) for versions 0-2, incl. runs that are interrupted and continued (both documented ways, "
            "two stop points per history); tiling, point assignment, local coefficient sums and local reproduction of unit functions "
            "checked in every state.",
            "Bounds d<=3, D<=2..3, s<=2, domain [0,1]^d.",
            "explicit-state BFS over decision histories replayed on the real objects"),
    "C08": ("DESIGN.md 2/C08",
            "Complete lattice grid family (10) x d(1,2) x level vector x dyadic sub-box (touching left/right/both/no end) of two domains; "
            "announced point numbers, containment, weight sums and every tensor monomial up to the nominal degree; trapezoid "
            "boundary-off contract against boundary-on minus global boundary points; point/weight-count contract with boundary off for Simpson, "
            "Clenshaw-Curtis, Leja; MixedGrid and per-dimension boundary flags against the per-dimension product; object reuse (all pairs/triples of requests on one object, refused requests in between, caller-owned start/end/level objects overwritten in place).",
            "levels <=4 (1D), <=2..4 (2D); nominal degrees as in the statement; known finding: level 0 one-sided boxes with boundary off.",
            "exhaustive input lattice, closed-form oracle"),
    "C09": ("DESIGN.md 2/C09",
            "Every refinement tree with leaves at depth<=4 and every Catalan tree with <=6 (thorough 8) inner points, dyadic and 1/3 "
            "splits, two intervals, plus all pairs of depth-<=3 trees in 2D (trapezoid AND every high-order / hierarchical rule, scalar and vector-valued integrands) and 3D triples; trapezoid weights compared with exact rational "
            "integrals of the piecewise-linear nodal functions, hierarchical/high-order rules with exact monomial moments; the high-order "
            "rule (with and without boundary points, modified basis, splitting) against a reference model of its moment matching; object "
            "reuse (one grid object asked repeatedly).",
            "trees <= 17 points; 'enough points' = complete dyadic level (hierarchical bases) / degree reached by the reference model "
            "(high-order rule); tree enumerator validated against the real refine(). Known findings: splitting without boundary points, "
            "modified B-splines on one-sided trees.",
            "exhaustive tree enumeration, exact reference weights"),
    "C10": ("DESIGN.md 2/C10",
            "Every tree of the C09 families x {Lagrange 1,2,3,5; B-spline 1,3,5} x boundary on/off (global grids, 1D and 2D pairs) and the "
            "local level/sub-box lattice: the identity is hierarchised and interpolated, every basis function is checked for the "
            "Kronecker property, derivative and integral; direct HierarchizationLSG calls with C-contiguous, Fortran-ordered and transposed value arrays.",
            "local grids only with boundary points (they cannot be constructed without); known finding: Lagrange p=5 polynomial degree.",
            "exhaustive tree/lattice enumeration, identity-matrix oracle"),
    "C11": ("DESIGN.md 2/C11",
            "Every dyadic tree (depth<=4, Catalan <=6/8) on three intervals x all 24 grouping/slice/container/balancing variants, all "
            "balanced trees for the balanced grid, all ordered pairs of small trees through the cached GlobalRombergGrid, all operation "
            "sequences of length<=3 on the GridBinaryTree singleton; refused grids (exception caught by the caller) between two valid requests on cached, uncached and plain ExtrapolationGrid objects.",
            "known finding: SIMPSON_ROMBERG containers with >=2 slices (weights do not sum to the length).",
            "exhaustive tree enumeration + operation sequences on the singleton, moment oracle"),
    "C12": ("DESIGN.md 2/C12",
            "(a) every operation sequence of depth 4 (thorough 5) over an 11-operation alphabet (single/batch/empty/ndarray/vectorised "
            "evaluation with colliding points, cache reset, cache deactivation, counter read) on 12 real Function objects, lock-step "
            "with a reference model (pure scalar eval + a set); (every returned array is overwritten by the harness afterwards, as a caller computing in place would); (b) complete lattice of 31 built-in classes/parameterisations (incl. the "
            "base-class numeric integral and compositions with a discontinuous component) x d<=3 x all "
            "boxes with corners in {0,1/4,1/2,1}^d (+ boxes off the unit cube; list, tuple and ndarray boxes) against composite Gauss-Legendre quadrature of eval; (c) the four evaluation paths (scalar, single calls, batch, eval_vectorized) of every class of the menu on a point lattice.",
            "Counter only compared while caching is on; UQNormal wrappers and FunctionGeneralizedNormal excluded (see assumptions).",
            "exhaustive operation-sequence enumeration with reference model + exhaustive input lattice"),
    "C13": ("DESIGN.md 2/C13",
            "Exhaustive lattice of limit configurations (tol x min_evaluations x max_evaluations built from the point counts of an "
            "unlimited baseline, every boundary case) x strategy x integrand x norm, each a complete run of the real adaptive loop "
            "with the real estimator (integrands incl. two whose refinement benefits are all exactly zero while the error stays above the tolerance), compared step by step with a reference model of the loop; distinct-evaluation counter "
            "kept by the harness-side integrand.",
            "d=2; eleven strategy variants (incl. a non-nested grid family and periodic recalculation); two-phase runs (incl. reevaluate_at_end in the first phase); time budgets "
            "through a virtual clock owned by the explorer (mc/clock.py); a second call of the driver on the used object (known finding: the cell strategy never stops then).",
            "exhaustive configuration lattice, reference-model lock-step of the driver loop"),
    "C14": ("DESIGN.md 2/C14",
            "Crash-point enumeration: every evaluation index (incl. the last) of every uninterrupted run (with and without a reference "
            "solution) is used as interruption point, in four variants (continue / performSpatiallyAdaptiv(refinement_container) / "
            "save+restore+continue / save, continue original, restore and continue copy); plus BFS over scripted refinement histories "
            "of the dimension-wise, extend-split and cell strategies with EVERY split point k=0..len and three continuations; final "
            "structure, scheme, result and point count compared with the uninterrupted run; restored instance compared with the saved one; "
            "hierarchical high-order local grids with and without periodic recalculation.",
            "d=2; real and scripted estimators; dill persistence into a scratch directory. Known findings: extend-split version 2, the "
            "cell strategy without reference and extend-split on a Lagrange grid when continued through refinement_container.",
            "exhaustive interruption-point enumeration, differential oracle against the uninterrupted run"),
    "C15": ("DESIGN.md 2/C15",
            "(a) every refinement tree with leaves at depth<=3 (thorough 4) built with the probability-halving midpoint plus tail chains, "
            "for 7 distribution configurations and 4 mixed per-dimension configurations x boundary flag: weight sign/sum/uniform laws and "
            "the midpoint law on every interval against independently built (scipy) reference distributions; "
            "(b) BFS over refinement-decision histories of the dimension-wise strategy on the weighted grid (plus default-estimator "
            "runs) with the affine images and a constant carried as components of one model: moment transformation laws in every state.",
            "Normal on a finite box: laws hold up to the mass deficit of the box; midpoint law for intervals of mass >= 2^-10.",
            "exhaustive tree enumeration + explicit-state BFS over decision histories"),
    "C16": ("DESIGN.md 2/C16",
            "Complete lattice of component grids (uniform level vectors d<=3 plus level >= 2 in three/four dimensions at once; every refinement tree of depth<=3 in 1D, pairs of trees in 2D, "
            "without and with boundary points) "
            "x lambda x mass lumping x analytic/numeric x labelling; per grid EVERY single-sample data set of a lattice containing grid "
            "lines, cell interiors and the boundary plus all two-sample sets (linearity of the right-hand side): R == exact Gram + lambda I, "
            "b == sample mean of independently evaluated hats, hat variants agree, surpluses == reference solve + normalisation, "
            "combined density == reference.",
            "data in the unit cube; lumped form accepted with or without lambda; numeric entries 1e-9. Known finding: sample on the upper boundary of a grid with boundary points.",
            "exhaustive input lattice, exact reference matrices"),
    "C17": ("DESIGN.md 2/C17",
            "Lock-step exploration: every refinement-decision history (BFS, scripted estimator, real loop) and every uniform combination is "
            "executed on 6 real instances (reuse on/off x size threshold 200/0/8 via the guarded hook) plus natural-size grids (>=200 "
            "points) without the hook, grids without and with boundary points, three-dimensional dimension-wise grids, and parameter sweeps (sequences of problems solved with fresh objects in one process); surpluses, scheme and interpolated densities compared with "
            "the reuse-off instance.",
            "Known finding: the right-hand-side reuse branch is not transparent. Hook: GridOperation._verif_threshold.",
            "explicit-state BFS over decision histories, differential (lock-step) oracle"),
    "C18": ("DESIGN.md 2/C18",
            "Every operation sequence of depth 3..4 (thorough 4..5) over a 35-operation alphabet (scalings with/without override, factors incl. negative and per-dimension, "
            "shifts, revert, explorer-chosen shuffle permutations, boundary move, the three splits followed by concatenation, in-range / "
            "duplicate / out-of-range removals, refused wrong-length factors and shifts, concatenation with a differently scaled copy, operations on derived objects = copies and "
            "split pieces) on 6 initial DataSets incl. empty, single, ties, one-dimensional and integer dtype; lock-step with a reference model of the labelled multiset, the scaling attributes and the composed affine map since the first scaling (revert must restore every surviving sample).",
            "Known findings: concatenate never refuses different scalings; revert_scaling is wrong once the set no longer contains the original minimum of a dimension. Exceptions on empty sets count as refusals.",
            "exhaustive operation-sequence enumeration with reference model"),
    "C19": ("DESIGN.md 2/C19",
            "Complete lattice of learning configurations (5 labelled data sets incl. unlabelled samples, 1D, gapped labels and a feature of extent 1e-3 x split percentage x even/uneven "
            "x standard/dimension-wise x explorer-chosen shuffle permutations) and on each learned object ALL call sequences of length 2 "
            "(thorough 3) over {__call__, test_data} x {inside, partly outside, entirely outside, with unlabelled, the classifier's own testing "
            "data as returned / reverted}; arg-max reference (densities recomputed from the surpluses) under "
            "the learning-time scaling (the class of a classifier = label of the samples it was trained on), removal rule, recomputed summary of every test_data call and of evaluate() over all stored testing data after every test step, earlier results unchanged.",
            "Ties within 1e-9 accept either class; the learned classifiers themselves are taken from the object (their correctness is C16/C17).",
            "exhaustive configuration lattice + operation-sequence enumeration with reference model"),
    "C20": ("DESIGN.md 2/C20",
            "Complete lattice d x targets x lambda x matrix x level range (standard) / margin x max_evaluations (dimension-wise) x Opticom "
            "option with default constructor arguments; per component grid the normal equations with an independently recomputed design "
            "matrix, design matrices vs hat values, smoothing matrices vs the exact gradient Gram matrix on every level vector and on "
            "every tree / pair of trees, Opticom coefficient sums; retraining of one object; two models alive in one process; natural-size training sets (33 000 samples).",
            "Known findings: build_C_matrix on anisotropic levels, build_C_matrix_dimension_wise in d>=2 / touching supports (values pinned by "
            "the repository tests).",
            "exhaustive configuration lattice, independent normal-equation oracle"),
}

NOT_YET = "check not built yet in this session; planned (see DESIGN.md section 2)"


def main():
    hooks_commits = []
    p = os.path.join(VERIF, "hooks_commits.txt")
    if os.path.exists(p):
        hooks_commits = [l.split()[0] for l in open(p) if l.strip()]
    checks = []
    for pid in ALL:
        if pid not in CHECKS:
            continue
        ref, text, note, tech = CHECKS[pid]
        checks.append({
            "property_id": pid,
            "quick_cmd": "/venv/bin/python check.py %s --tier quick" % pid,
            "thorough_cmd": "/venv/bin/python check.py %s --tier thorough" % pid,
            "evidence_file": "/verif/evidence/%s.json" % pid,
            "replay_cmd_template": "/venv/bin/python check.py %s --replay {path}" % pid,
            "engine": "mc",
            "level_claimed": {"category": "model_checking", "text": text, "design_ref": ref},
            "level_note": note,
            "technique": tech,
        })
    man = {
        "version": 1,
        "setup_cmd": "/venv/bin/python -c \"import sparseSpACE, numpy, scipy\" && python3-vt -c \"import jsonschema\"",
        "hooks": {
            "guard": "SPARSESPACE_VERIF",
            "enable": "checks set SPARSESPACE_VERIF=1 in their own environment before importing sparseSpACE from /repo's "
                      "working tree (editable install, nothing to build)",
            "baseline_off_cmd": "cd /repo && env -u SPARSESPACE_VERIF /venv/bin/python -m pytest -ra -q -p no:cacheprovider "
                                "--timeout=900 --continue-on-collection-errors",
            "source_commits": hooks_commits,
            "add_only": True,
        },
        "engines": [{
            "name": "mc",
            "path": "/verif/mc",
            "serves_properties": sorted(CHECKS),
            "kind_free_text": "hand-written explicit-state / bounded-exhaustive explorer for Python: replay-based BFS over decision "
                              "histories of the real objects with canonical-state deduplication, exhaustive input-lattice "
                              "enumerators (all refinement trees up to a depth, all level vectors, all sub-boxes), reference models "
                              "in Python, fork-based worker pool",
        }],
        "checks": checks,
        "notes": "All checks: /venv/bin/python check.py <ID> --tier quick|thorough, cwd=/verif. Known findings: "
                 "/verif/known_findings.json. Replays: /verif/replays/<ID>-n.json.",
        "not_applicable": [{"property_id": pid, "reason": NOT_YET} for pid in ALL if pid not in CHECKS],
    }
    with open(os.path.join(VERIF, "MANIFEST.json"), "w") as fh:
        json.dump(man, fh, indent=1)
    print("MANIFEST.json written: %d checks, %d not_applicable" % (len(checks), len(man["not_applicable"])))


if __name__ == "__main__":
    main()
