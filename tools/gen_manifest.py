#!/usr/bin/env python3
"""Generates /verif/MANIFEST.json from the table below (kept here so the manifest is always valid JSON)."""
import json
import os

VERIF = os.path.dirname(os.path.dirname(os.path.abspath(__file__)))

ALL = ["C%02d" % i for i in range(1, 21)]

# pid -> (design_ref, level text, level_note, technique)
CHECKS = {
    "C01": ("DESIGN.md 2/C01",
            "Explicit-state search over the real CombiScheme: every (old,active) index-set state reachable by <=D effective "
            "refinements from every (d<=4,lmin<=2,lmax<=lmin+3) start; in every state every level vector of the surrounding box is "
            "requested; lock-step with a reference index-set model plus all invariants of the statement on every successor.",
            "Bounds d<=4, lmin<=2, lmax-lmin<=3, depth per configuration (see evidence.bounds_completed). Reference model "
            "mc/refmodels/indexset.py is trusted.",
            "explicit-state BFS over real transition function, reference-model lock-step"),
}

NOT_YET = "check not built yet in this session; planned (see DESIGN.md section 2)"


def main():
    hooks_commits = []
    p = os.path.join(VERIF, "hooks_commits.txt")
    if os.path.exists(p):
        hooks_commits = [l.split()[0] for l in open(p) if l.strip()]
    checks = []
    for pid in ALL:
        if pid not in CHECKS:
            continue
        ref, text, note, tech = CHECKS[pid]
        checks.append({
            "property_id": pid,
            "quick_cmd": "/venv/bin/python check.py %s --tier quick" % pid,
            "thorough_cmd": "/venv/bin/python check.py %s --tier thorough" % pid,
            "evidence_file": "/verif/evidence/%s.json" % pid,
            "replay_cmd_template": "/venv/bin/python check.py %s --replay {path}" % pid,
            "engine": "mc",
            "level_claimed": {"category": "model_checking", "text": text, "design_ref": ref},
            "level_note": note,
            "technique": tech,
        })
    man = {
        "version": 1,
        "setup_cmd": "/venv/bin/python -c \"import sparseSpACE, numpy, scipy\" && python3-vt -c \"import jsonschema\"",
        "hooks": {
            "guard": "SPARSESPACE_VERIF",
            "enable": "checks set SPARSESPACE_VERIF=1 in their own environment before importing sparseSpACE from /repo's "
                      "working tree (editable install, nothing to build)",
            "baseline_off_cmd": "cd /repo && env -u SPARSESPACE_VERIF /venv/bin/python -m pytest -ra -q -p no:cacheprovider "
                                "--timeout=900 --continue-on-collection-errors",
            "source_commits": hooks_commits,
            "add_only": True,
        },
        "engines": [{
            "name": "mc",
            "path": "/verif/mc",
            "serves_properties": sorted(CHECKS),
            "kind_free_text": "hand-written explicit-state / bounded-exhaustive explorer for Python: replay-based BFS over decision "
                              "histories of the real objects with canonical-state deduplication, exhaustive input-lattice "
                              "enumerators (all refinement trees up to a depth, all level vectors, all sub-boxes), reference models "
                              "in Python, fork-based worker pool",
        }],
        "checks": checks,
        "notes": "All checks: /venv/bin/python check.py <ID> --tier quick|thorough, cwd=/verif. Known findings: "
                 "/verif/known_findings.json. Replays: /verif/replays/<ID>-n.json.",
        "not_applicable": [{"property_id": pid, "reason": NOT_YET} for pid in ALL if pid not in CHECKS],
    }
    with open(os.path.join(VERIF, "MANIFEST.json"), "w") as fh:
        json.dump(man, fh, indent=1)
    print("MANIFEST.json written: %d checks, %d not_applicable" % (len(checks), len(man["not_applicable"])))


if __name__ == "__main__":
    main()
