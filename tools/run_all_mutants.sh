#!/bin/bash
# usage: run_all_mutants.sh [parallel jobs] [tier]  -- every patch in mutants/ against the quick check of its property, each in a private
# scratch worktree of /repo's HEAD (tools/run_mutant_wt.sh); prints one CAUGHT/MISSED line per mutant and a summary.
J=${1:-3}; T=${2:-quick}
cd /verif
list=$(mktemp)
for m in mutants/*.diff; do
  b=$(basename $m); p=${b%%_*}
  case $b in
    C05C14_revert_fix_a16852a.diff) p=C14;;
    C05C14_*) p=C05;;
  esac
  echo "$m $p" >> $list
done
xargs -a $list -P $J -L 1 sh -c 'tools/run_mutant_wt.sh $0 $1 '$T' 2>&1 | tail -1 | cut -c1-220' | tee /tmp/all_mutants.log
rm -f $list
echo "SUMMARY caught=$(grep -c ^CAUGHT /tmp/all_mutants.log) missed=$(grep -c ^MISSED /tmp/all_mutants.log) other=$(grep -vc '^CAUGHT\|^MISSED' /tmp/all_mutants.log)"
