#!/usr/bin/env python3
"""keep_seed.py <PID> <seed-id> <caught_initially: yes|no> <caught_now_by> <note>  -- copy a confirmed seeded change into /verif/seeded/<seed-id>/"""
import json, os, shutil, sys
pid, sid, initially, now_by, note = sys.argv[1:6]
src = os.path.join(os.environ.get("SEED_OUT", "/tmp/seed_out"), pid)
dst = "/verif/seeded/%s" % sid
os.makedirs(dst, exist_ok=True)
shutil.copy(os.path.join(src, "patch.diff"), dst)
shutil.copy(os.path.join(src, "demo.py"), dst)
agent = {}
try:
    agent = json.load(open(os.path.join(src, "meta.json")))
except Exception as e:
    agent = {"error": str(e)}
conf = open(os.path.join(src, "confirm_summary.txt")).read().strip().splitlines() if os.path.exists(os.path.join(src, "confirm_summary.txt")) else []
meta = {"seed_id": sid, "property": pid, "author": "independent sub-agent (saw only the property text and its own scratch worktree)",
        "what_changed": agent.get("what_changed"), "why_it_breaks_the_property": agent.get("why_it_breaks_the_property"),
        "what_it_needs_to_manifest": agent.get("what_it_needs_to_manifest"),
        "confirmed_by_me": {"how": "tools/confirm_seed.sh in a scratch worktree: patch applies to a clean checkout; pinned suite with the patch; "
                                   "demo.py with the patch (must exit non-zero) and on the clean checkout (must exit 0)",
                            "result": conf},
        "checks_run": "tools/run_mutant.py (patch applied to /repo, quick tier, reverted afterwards) or tools/eval_seed_wt.sh (same check against the scratch worktree)",
        "caught_by_quick_check_when_first_run": initially, "caught_now_by": now_by, "note": note}
json.dump(meta, open(os.path.join(dst, "meta.json"), "w"), indent=1)
print("kept", dst)
