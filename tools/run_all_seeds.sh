#!/bin/bash
# usage: run_all_seeds.sh [parallel jobs] [tier]  -- every seeded/<id>/patch.diff against the check of its property, each in a private scratch
# worktree of /repo's HEAD (tools/run_mutant_wt.sh); one CAUGHT/MISSED line per seed and a summary.
J=${1:-3}; T=${2:-quick}
cd /verif
list=$(mktemp)
for d in seeded/*/; do
  b=$(basename $d); p=$(echo $b | cut -d- -f2)
  echo "$d/patch.diff $p $b" >> $list
done
xargs -a $list -P $J -L 1 sh -c 'echo "$2: $(tools/run_mutant_wt.sh $0 $1 '$T' 2>&1 | tail -1 | cut -c1-200)"' | tee /tmp/all_seeds.log
rm -f $list
echo "SUMMARY caught=$(grep -c ': CAUGHT' /tmp/all_seeds.log) missed=$(grep -c ': MISSED' /tmp/all_seeds.log) other=$(grep -vc ': CAUGHT\|: MISSED' /tmp/all_seeds.log)"
