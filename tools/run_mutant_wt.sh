#!/bin/bash
# usage: run_mutant_wt.sh <patch.diff> <PID> [tier]  -- run a check against a private scratch worktree of /repo's HEAD with the patch
# applied (leaves /repo's working tree alone, so it can run next to other checks).  Prints CAUGHT/MISSED.
P=$(readlink -f $1); C=$2; T=${3:-quick}
WT=$(mktemp -d /tmp/wtmut_XXXXXX); rmdir $WT
git -C /repo worktree add -q --detach $WT HEAD || exit 2
trap "git -C /repo worktree remove --force $WT; rm -rf $WT.out" EXIT
cd $WT && git apply $P || { echo "PATCH-DOES-NOT-APPLY $P"; exit 2; }
cd /verif
out=$(VERIF_REPO=$WT VERIF_EVIDENCE_DIR=$WT.out/evidence VERIF_REPLAY_DIR=$WT.out/replays /venv/bin/python check.py $C --tier $T 2>&1)
rc=$?
v=$(echo "$out" | grep -c "^VIOLATION")
if [ $rc = 1 ] && [ $v -gt 0 ]; then r=CAUGHT; else r=MISSED; fi
echo "$r $(basename $P) check=$C tier=$T rc=$rc violations=$v $(echo "$out" | grep "^VIOLATION" | head -1 | cut -c1-160) | $(echo "$out" | tail -1 | cut -c1-120)"
