#!/venv/bin/python
"""Apply a patch to /repo's working tree, run the quick (or thorough) checks of the given properties,
restore the tree.  usage: run_mutant.py <patch.diff> <PID> [<PID>...] [--tier thorough] [--tests test/test_x.py]
Prints CAUGHT/MISSED per property.  Never commits anything in /repo."""
import subprocess, sys, os
args = sys.argv[1:]
tier = "quick"; tests = None
if "--tier" in args:
    i = args.index("--tier"); tier = args[i + 1]; del args[i:i + 2]
if "--tests" in args:
    i = args.index("--tests"); tests = args[i + 1]; del args[i:i + 2]
patch, pids = os.path.abspath(args[0]), args[1:]
assert subprocess.run(["git", "-C", "/repo", "status", "--porcelain", "--untracked-files=no"], capture_output=True, text=True).stdout.strip() == "", "repo dirty"
subprocess.run(["git", "-C", "/repo", "apply", patch], check=True)
try:
    if tests:
        r = subprocess.run("cd /repo && /venv/bin/python -m pytest -q -p no:cacheprovider -x %s 2>&1 | tail -3" % tests, shell=True, capture_output=True, text=True)
        print("TESTS:", r.stdout.strip().splitlines()[-1] if r.stdout.strip() else r.stderr[-200:])
    for pid in pids:
        r = subprocess.run(["/venv/bin/python", "/verif/check.py", pid, "--tier", tier], capture_output=True, text=True, cwd="/verif")
        viol = [l for l in r.stdout.splitlines() if l.startswith("VIOLATION")]
        print("%s %s rc=%d violations=%d %s" % ("CAUGHT" if r.returncode == 1 and viol else "MISSED", pid, r.returncode, len(viol), viol[0][:200] if viol else r.stdout[-300:] + r.stderr[-300:]))
finally:
    subprocess.run(["git", "-C", "/repo", "checkout", "--", "."], check=True)
    subprocess.run(["git", "-C", "/verif", "checkout", "--", "evidence"], capture_output=True)
