#!/bin/bash
# usage: confirm_seed.sh <PID> [outdir] [worktree]   -- independent confirmation of a seeded change in its scratch worktree /tmp/wt_<PID>:
#  patch applies to a clean checkout, pinned suite result with the patch, demo fails with / passes without the patch.
PID=$1; OUT=${2:-/tmp/seed_out/$PID}; WT=${3:-/tmp/wt_$PID}
cd $WT || exit 2
git checkout -q -- . && git apply $OUT/patch.diff || { echo "PATCH-DOES-NOT-APPLY"; exit 2; }
env -u SPARSESPACE_VERIF /venv/bin/python -m pytest -q -p no:cacheprovider --timeout=900 --continue-on-collection-errors test > $OUT/confirm_pytest.log 2>&1
tail -n 1 $OUT/confirm_pytest.log > $OUT/confirm_summary.txt
grep "^FAILED" $OUT/confirm_pytest.log >> $OUT/confirm_summary.txt
/venv/bin/python $OUT/demo.py > $OUT/confirm_demo_patched.log 2>&1; echo "demo_with_patch_exit=$?" >> $OUT/confirm_summary.txt
git checkout -q -- .
/venv/bin/python $OUT/demo.py > $OUT/confirm_demo_clean.log 2>&1; echo "demo_clean_exit=$?" >> $OUT/confirm_summary.txt
cat $OUT/confirm_summary.txt
