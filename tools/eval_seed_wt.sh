#!/bin/bash
# usage: eval_seed_wt.sh <seedPID> <checkPID> [tier] [outdir] [worktree]  -- run a check against the scratch worktree /tmp/wt_<seedPID> (must be in patched state)
S=$1; C=$2; T=${3:-quick}; OUT=${4:-/tmp/seed_out/$S}; WT=${5:-/tmp/wt_$S}
cd $WT && git checkout -q -- . && git apply $OUT/patch.diff || exit 2
cd /verif
out=$(VERIF_REPO=$WT VERIF_EVIDENCE_DIR=$OUT/evidence VERIF_REPLAY_DIR=$OUT/replays /venv/bin/python check.py $C --tier $T 2>&1)
rc=$?
v=$(echo "$out" | grep -c "^VIOLATION")
echo "seed=$S check=$C tier=$T rc=$rc violations=$v $(echo "$out" | grep "^VIOLATION" | head -1 | cut -c1-200) $(echo "$out" | tail -1 | cut -c1-160)"
