#!/bin/bash
# usage: eval_seed_wt.sh <seedPID> <checkPID> [tier]  -- run a check against the scratch worktree /tmp/wt_<seedPID> (must be in patched state)
S=$1; C=$2; T=${3:-quick}
cd /tmp/wt_$S && git checkout -q -- . && git apply /tmp/seed_out/$S/patch.diff || exit 2
cd /verif
out=$(VERIF_REPO=/tmp/wt_$S VERIF_EVIDENCE_DIR=/tmp/seed_out/$S/evidence VERIF_REPLAY_DIR=/tmp/seed_out/$S/replays /venv/bin/python check.py $C --tier $T 2>&1)
rc=$?
v=$(echo "$out" | grep -c "^VIOLATION")
echo "seed=$S check=$C tier=$T rc=$rc violations=$v $(echo "$out" | grep "^VIOLATION" | head -1 | cut -c1-200) $(echo "$out" | tail -1 | cut -c1-160)"
