"""Core of the bounded-exhaustive checker: run context, worker pool, failure
bookkeeping (known findings / violations / replay files) and evidence output.

A *case* is a JSON-able dict that fully determines one execution of the real
implementation (a configuration plus a decision history, or one input of a
lattice).  Every check module exposes

    PID                 property id
    run_case(case)   -> dict(failures=[...], canon=..., events=[...], outcome=..., nontrivial=bool, evals=int)
    main(ctx)           enumerates cases (lattice or BFS over histories) through ctx

so that a violation can be replayed by calling run_case on the stored case only.
"""
import contextlib
import hashlib
import io
import json
import multiprocessing as mp
import os
import shutil
import subprocess
import sys
import tempfile
import time
import traceback

VERIF = os.path.dirname(os.path.dirname(os.path.abspath(__file__)))
EVIDENCE_DIR = os.environ.get("VERIF_EVIDENCE_DIR") or os.path.join(VERIF, "evidence")   # overridden only by tools/eval_seed_wt.sh
REPLAY_DIR = os.environ.get("VERIF_REPLAY_DIR") or os.path.join(VERIF, "replays")
FINDINGS_FILE = os.path.join(VERIF, "known_findings.json")
GUARD = "SPARSESPACE_VERIF"

EXIT_OK, EXIT_VIOLATION, EXIT_HARNESS = 0, 1, 2


class HarnessError(Exception):
    """The checker itself misbehaved (nondeterminism, replay divergence).  No verdict."""


def setup_environment():
    os.environ.setdefault("MPLBACKEND", "Agg")
    os.environ[GUARD] = "1"
    os.environ.setdefault("OMP_NUM_THREADS", "1")
    os.environ.setdefault("OPENBLAS_NUM_THREADS", "1")
    os.environ.setdefault("MKL_NUM_THREADS", "1")
    import warnings
    warnings.simplefilter("ignore")


@contextlib.contextmanager
def quiet():
    """Silence the library's console output (its print level NONE=0 prints everything)."""
    buf = io.StringIO()
    with contextlib.redirect_stdout(buf):
        yield buf


def fail(oracle, detail, key=None, **extra):
    """Build a failure record.  `key` = the configuration fields that identify the finding."""
    d = {"oracle": oracle, "key": dict(key or {}), "detail": str(detail)[:600]}
    d.update(extra)
    return d


def signature(pid, f):
    parts = [pid, f["oracle"]] + ["%s=%s" % (k, f["key"][k]) for k in sorted(f["key"])]
    return "/".join(parts)


def load_findings():
    if not os.path.exists(FINDINGS_FILE):
        return []
    with open(FINDINGS_FILE) as fh:
        return json.load(fh)["findings"]


def jsonable(x):
    import numpy as np
    from fractions import Fraction
    if isinstance(x, dict):
        return {str(k): jsonable(v) for k, v in x.items()}
    if isinstance(x, (list, tuple, set, frozenset)):
        xs = list(x)
        if isinstance(x, (set, frozenset)):
            xs = sorted(xs, key=repr)
        return [jsonable(v) for v in xs]
    if isinstance(x, np.ndarray):
        return jsonable(x.tolist())
    if isinstance(x, (np.integer,)):
        return int(x)
    if isinstance(x, (np.floating,)):
        return float(x)
    if isinstance(x, (np.bool_,)):
        return bool(x)
    if isinstance(x, Fraction):
        return float(x)
    if isinstance(x, (str, int, float, bool)) or x is None:
        return x
    return repr(x)


def digest(x):
    return hashlib.sha1(repr(x).encode()).hexdigest()[:16]


# ---------------------------------------------------------------- worker side
_RUN_CASE = None


def _worker_init(run_case, cwd):
    global _RUN_CASE
    _RUN_CASE = run_case
    os.chdir(cwd)
    sys.stdout = open(os.devnull, "w")


def _worker_call(case):
    return safe_run_case(_RUN_CASE, case)


def safe_run_case(run_case, case):
    try:
        with quiet():
            res = run_case(case)
    except HarnessError as e:
        # the implementation did not follow the decision script that was derived from its own state (or a recorded history no
        # longer replays): on a correct tree this never happens, so it is reported like any other failure of the case
        res = {"failures": [fail("driver_did_not_follow_script", str(e), key={})]}
    except Exception as e:  # an exception escaping the oracle is reported as a failure of the case
        tb = traceback.format_exc(limit=6)
        res = {"failures": [fail("exception", "%s: %s\n%s" % (type(e).__name__, e, tb),
                                 key={"type": type(e).__name__})]}
    res.setdefault("failures", [])
    res.setdefault("canon", None)
    res.setdefault("events", [])
    res.setdefault("outcome", None)
    res.setdefault("nontrivial", True)
    res.setdefault("evals", 1)
    return res


# ---------------------------------------------------------------- run context
class Context:
    def __init__(self, pid, tier, seed, run_case, workers=None):
        self.pid, self.tier, self.seed = pid, tier, seed
        self.run_case = run_case
        self.t0 = time.time()
        self.workers = int(os.environ.get("VERIF_WORKERS", workers or min(16, os.cpu_count() or 1)))
        self.findings = load_findings()
        self.known = {f["signature"]: f for f in self.findings
                      if f["property"] == pid and f["status"] == "known"}
        self.known_hit = {}
        self.violations = []          # (signature, failure, case)
        self.viol_sigs = {}
        self.states = set()
        self.transitions = 0
        self.traces = 0
        self.evals = 0
        self.nontrivial = set()
        self.outcomes = set()
        self.samples = []
        self.bounds = {}
        self.caps = []
        self.notes = []
        self.exhaustive = True
        self.groups = {}
        import glob
        for old in glob.glob(os.path.join(REPLAY_DIR, "%s-*.json" % pid)):   # replay files of earlier runs are stale
            os.remove(old)
        self.scratch = tempfile.mkdtemp(prefix="verif_%s_" % pid)
        self.oldcwd = os.getcwd()
        os.chdir(self.scratch)
        self.pool = None
        budget = os.environ.get("VERIF_BUDGET_S")
        self.deadline = self.t0 + float(budget) if budget else None

    # -- pool
    def start_pool(self):
        if self.pool is None and self.workers > 1:
            ctx = mp.get_context("fork")
            self.pool = ctx.Pool(self.workers, initializer=_worker_init,
                                 initargs=(self.run_case, self.scratch))

    def map(self, cases, chunksize=None):
        """Run all cases (ordered results).  Results are consumed through `absorb`."""
        cases = list(cases)
        if not cases:
            return []
        if self.workers <= 1 or len(cases) < 4:
            return [safe_run_case(self.run_case, c) for c in cases]
        self.start_pool()
        if chunksize is None:
            chunksize = max(1, min(32, len(cases) // (self.workers * 16)))
        return self.pool.map(_worker_call, cases, chunksize=chunksize)

    def out_of_time(self):
        return self.deadline is not None and time.time() > self.deadline

    # -- bookkeeping
    def absorb(self, case, res, state_key=None, count_transition=True, trace=True, group=None):
        """Account for one executed case and classify its failures."""
        if count_transition:
            self.transitions += 1
        if trace:
            self.traces += 1
        self.evals += int(res.get("evals", 1))
        canon = res.get("canon")
        key = state_key if state_key is not None else canon
        if key is None:
            key = ("case", json.dumps(jsonable(case), sort_keys=True))   # a case that raised has no canonical state of its own
        new = False
        if key is not None:
            k = digest(key)
            new = k not in self.states
            self.states.add(k)
            if res.get("nontrivial", True):
                self.nontrivial.add(k)
        if res.get("outcome") is not None:
            self.outcomes.add(digest(res["outcome"]))
        if group is not None:
            g = self.groups.setdefault(group, {"cases": 0, "failures": 0})
            g["cases"] += 1
            g["failures"] += len(res["failures"])
        for f in res["failures"]:
            self.record_failure(f, f.pop("case", None) or case)
        return new

    def record_failure(self, f, case):
        sig = signature(self.pid, f)
        if sig in self.known:
            h = self.known_hit.setdefault(sig, {"count": 0, "first": jsonable(case)})
            h["count"] += 1
        else:
            if sig not in self.viol_sigs:
                self.viol_sigs[sig] = 0
                self.violations.append((sig, f, case))
            self.viol_sigs[sig] += 1

    def add_sample(self, s, limit=5):
        if len(self.samples) < limit:
            self.samples.append(jsonable(s))

    # -- determinism probe: same case twice in-process and once in a fresh process
    def determinism_probe(self, case):
        a = safe_run_case(self.run_case, case)
        b = safe_run_case(self.run_case, case)
        da, db = digest((a["canon"], a["outcome"], a["failures"])), digest((b["canon"], b["outcome"], b["failures"]))
        if da != db:
            raise HarnessError("nondeterministic replay in-process for case %r" % (case,))
        if os.environ.get("VERIF_SKIP_SUBPROCESS_PROBE") != "1":
            path = os.path.join(self.scratch, "probe_case.json")
            with open(path, "w") as fh:
                json.dump(jsonable(case), fh)
            env = dict(os.environ)
            env["VERIF_SEED"] = str(self.seed)
            out = subprocess.run([sys.executable, os.path.join(VERIF, "check.py"), self.pid,
                                  "--digest", path], capture_output=True, text=True, env=env,
                                 cwd=self.scratch)
            lines = [l for l in out.stdout.splitlines() if l.startswith("DIGEST ")]
            if out.returncode != 0 or not lines:
                raise HarnessError("determinism probe subprocess failed: %s %s" % (out.stdout[-300:], out.stderr[-600:]))
            if lines[-1].split()[1] != da:
                raise HarnessError("fresh-process replay differs from in-process run for case %r" % (case,))
        self.notes.append("determinism probe ok (2 in-process runs + 1 fresh process): %s" % digest(case))

    def derive_history(self, config, depth, pick=lambda evs: evs[len(evs) // 2]):
        """a history that is valid for the implementation as it is now: follow one enabled event per step"""
        h = []
        for _ in range(depth):
            res = safe_run_case(self.run_case, {"config": config, "history": h, "want_events": True})
            if not res["events"]:
                break
            h = h + [pick(res["events"])]
        return h

    # -- finish: confirm violations by fresh replay, write replay files and evidence
    def finish(self, rule, assumptions, extra=None):
        confirmed = []
        for n, (sig, f, case) in enumerate(self.violations):
            # confirmation by replay.  A failure that needs state surviving from EARLIER objects of the same process (class-level or
            # module-level caches of the library) does not show on the first isolated replay: the case is replayed up to three times in
            # this process; a failure that never reproduces here was observed by an exploring worker after other cases and is still
            # reported (the verdict then depends on what ran before in that process - itself a violation of a statement that holds
            # "for every history"), with the way it reproduced recorded in the replay file.
            how = "only inside the exploring worker (after other cases of the run), not on 3 replays in a fresh state"
            for attempt in range(1, 4):
                res = safe_run_case(self.run_case, case)
                if sig in {signature(self.pid, g) for g in res["failures"]}:
                    how = "isolated replay" if attempt == 1 else "replay number %d in one process (state surviving from the earlier replays)" % attempt
                    break
            os.makedirs(REPLAY_DIR, exist_ok=True)
            path = os.path.join(REPLAY_DIR, "%s-%d.json" % (self.pid, n))
            with open(path, "w") as fh:
                json.dump({"property": self.pid, "signature": sig, "failure": jsonable(f), "reproduced": how,
                           "occurrences": self.viol_sigs[sig], "case": jsonable(case)}, fh, indent=1)
            confirmed.append((sig, path))
        for sig, h in sorted(self.known_hit.items()):
            print("KNOWN-FINDING: property=%s %s [%s; %d occurrences in this run]"
                  % (self.pid, self.known[sig]["what_fails"], sig, h["count"]))
        for sig, path in confirmed[:12]:
            print("VIOLATION property=%s replay=%s  (%s)" % (self.pid, path, sig))
        if len(confirmed) > 12:
            print("... %d further violation signatures, see %s" % (len(confirmed) - 12, REPLAY_DIR))
        wall = time.time() - self.t0
        cov = {
            "states": len(self.states),
            "transitions": self.transitions,
            "traces_validated_against_impl": self.traces,
            "evaluations": self.evals,
            "distinct_nontrivial": len(self.nontrivial),
            "distinct_outcomes": len(self.outcomes),
            "rule": rule,
            "samples": self.samples or ["(no sample recorded)"],
            "exhaustive": bool(self.exhaustive and not self.caps),
            "bounds_completed": self.bounds,
            "caps_hit": self.caps,
            "groups": self.groups,
            "known_findings_hit": {s: h["count"] for s, h in self.known_hit.items()},
            "notes": self.notes,
            "workers": self.workers,
        }
        if extra:
            cov.update(jsonable(extra))
        ev = {"property_id": self.pid, "tier": self.tier, "seed": int(self.seed),
              "level": "model_checking", "coverage": cov, "assumptions": assumptions,
              "wall_s": round(wall, 2), "violations": len(confirmed)}
        os.makedirs(EVIDENCE_DIR, exist_ok=True)
        path = os.path.join(EVIDENCE_DIR, "%s.json" % self.pid)
        with open(path, "w") as fh:
            json.dump(ev, fh, indent=1)
        print("%s tier=%s seed=%s states=%d transitions=%d traces=%d evals=%d nontrivial=%d outcomes=%d "
              "exhaustive=%s known=%d violations=%d wall=%.1fs"
              % (self.pid, self.tier, self.seed, cov["states"], cov["transitions"],
                 cov["traces_validated_against_impl"], cov["evaluations"], cov["distinct_nontrivial"],
                 cov["distinct_outcomes"], cov["exhaustive"], len(self.known_hit), len(confirmed), wall))
        return EXIT_VIOLATION if confirmed else EXIT_OK

    def close(self):
        if self.pool is not None:
            self.pool.terminate()
            self.pool.join()
            self.pool = None
        os.chdir(self.oldcwd)
        shutil.rmtree(self.scratch, ignore_errors=True)


# ---------------------------------------------------------------- BFS over decision histories
def bfs(ctx, config, depth, tag=None, sample_every=None):
    """Level-synchronous explicit-state search.  A state is the history reaching it; each
    transition is executed by replaying the history on fresh real objects in a worker.
    run_case({'config','history','want_events'}) returns canon/events/failures."""
    t_start = time.time()
    root_case = {"config": config, "history": [], "want_events": depth > 0}
    root = safe_run_case(ctx.run_case, root_case)
    ctx.absorb(root_case, root, state_key=(tag, config_key(config), root["canon"]),
               count_transition=False, group=tag)
    seen = {digest(root["canon"])}
    frontier = [([], root["events"])]
    completed = 0
    stats = {"levels": []}
    for level in range(1, depth + 1):
        tasks = [{"config": config, "history": h + [ev], "want_events": level < depth}
                 for h, evs in frontier for ev in evs]
        if not tasks:
            break
        if ctx.out_of_time():
            ctx.caps.append("time budget reached before level %d of %s" % (level, tag))
            break
        results = ctx.map(tasks)
        nxt = []
        for task, res in zip(tasks, results):
            ctx.absorb(task, res, state_key=(tag, config_key(config), res["canon"]), group=tag)
            if res["canon"] is None:
                continue
            k = digest(res["canon"])
            if k not in seen:
                seen.add(k)
                nxt.append((task["history"], res["events"]))
                if len(task["history"]) == depth or (sample_every and len(seen) % sample_every == 0):
                    if len(ctx.samples) < 5 and len(task["history"]) >= min(2, depth):
                        ctx.add_sample({"config": config, "history": task["history"]})
        stats["levels"].append({"level": level, "transitions": len(tasks), "new_states": len(nxt)})
        frontier = nxt
        completed = level
    stats["states"] = len(seen)
    stats["depth_completed"] = completed
    stats["wall_s"] = round(time.time() - t_start, 2)
    return stats


def config_key(config):
    return json.dumps(jsonable(config), sort_keys=True)


def validate_evidence(pid):
    """Validate the evidence file against the schema using the tooling venv (jsonschema lives there)."""
    schema = "/root/.vp/EVIDENCE.schema.json"
    if not os.path.exists(schema) or shutil.which("python3-vt") is None:
        return None
    code = ("import json,jsonschema,sys;"
            "jsonschema.validate(json.load(open(sys.argv[1])),json.load(open(sys.argv[2])))")
    r = subprocess.run(["python3-vt", "-c", code, os.path.join(EVIDENCE_DIR, pid + ".json"), schema],
                       capture_output=True, text=True)
    return r.returncode == 0, r.stderr[-500:]
