"""Enumerators of 1D refinement trees: every sorted point set (with point levels) a refinement tree can produce.

A tree is (points, levels) including both end points (level 0).  Splitting an interval puts a point at
mid(lo,hi) with level = depth, exactly what RefinementObjectSingleDimension.refine() does (child level =
max(levels of the interval ends)+1 in a binary tree == depth); `conformance_with_refine` replays a tree through the
real refine() and compares.
"""
import functools
import itertools


def _mid(lo, hi):
    return 0.5 * (lo + hi)


def all_trees_depth(maxd, a=0.0, b=1.0, mid=_mid, include_trivial=False):
    """all trees whose leaves are at depth <= maxd:  T(m) = 1 + T(m-1)^2  (5, 26, 677 for m = 2, 3, 4)"""
    def rec(lo, hi, level):
        out = [([], [])]
        if level <= maxd:
            m = mid(lo, hi)
            left = rec(lo, m, level + 1)
            right = rec(m, hi, level + 1)
            for lp, ll in left:
                for rp, rl in right:
                    out.append((lp + [m] + rp, ll + [level] + rl))
        return out
    res = [([a] + p + [b], [0] + l + [0]) for p, l in rec(a, b, 1) if p or include_trivial]
    return res


def catalan_trees(nmax, a=0.0, b=1.0, mid=_mid, nmin=1):
    """all binary refinement trees with nmin..nmax inner points (Catalan numbers: 1,2,5,14,42,132,429)"""
    @functools.lru_cache(maxsize=None)
    def shapes(n):
        if n == 0:
            return (None,)
        out = []
        for k in range(n):
            for l in shapes(k):
                for r in shapes(n - 1 - k):
                    out.append((l, r))
        return tuple(out)

    def place(shape, lo, hi, level, pts, lvs):
        if shape is None:
            return
        m = mid(lo, hi)
        place(shape[0], lo, m, level + 1, pts, lvs)
        pts.append(m)
        lvs.append(level)
        place(shape[1], m, hi, level + 1, pts, lvs)
    res = []
    for n in range(nmin, nmax + 1):
        for sh in shapes(n):
            pts, lvs = [], []
            place(sh, a, b, 1, pts, lvs)
            res.append(([a] + pts + [b], [0] + lvs + [0]))
    return res


def tree_family(depth, catalan, a=0.0, b=1.0, mid=_mid):
    """union of both families, deduplicated on the point tuple"""
    seen, out = set(), []
    for t in all_trees_depth(depth, a, b, mid) + catalan_trees(catalan, a, b, mid):
        k = tuple(t[0])
        if k not in seen:
            seen.add(k)
            out.append(t)
    return out


def graded_chains(depth, a=0.0, b=1.0, fractions=(0.0, 1.0, 1.0 / 3.0, 0.7), mid=_mid, start=2):
    """strongly graded trees: the interval containing a target point is split again and again (one tree per chain prefix of
    `start`..`depth` splits); the targets are given as fractions of [a,b] (0 and 1: refinement towards an end point)"""
    out, seen = [], set()
    for fr in fractions:
        t = a + fr * (b - a)
        pts, lvs = [a, b], [0, 0]
        lo_i = 0
        for level in range(1, depth + 1):
            lo, hi = pts[lo_i], pts[lo_i + 1]
            m = mid(lo, hi)
            pts.insert(lo_i + 1, m)
            lvs.insert(lo_i + 1, level)
            if t >= m and not (fr == 0.0):
                lo_i += 1
            if level >= start and tuple(pts) not in seen:
                seen.add(tuple(pts))
                out.append((list(pts), list(lvs)))
    return out


def is_complete_level(points, a, b):
    """largest m such that all dyadic points of level <= m are present (0 if only the end points)"""
    P = set(points)
    m = 0
    while True:
        n = 2 ** (m + 1)
        if all((a + i * (b - a) / n) in P for i in range(n + 1)):
            m += 1
        else:
            return m


def conformance_with_refine(tree, a=0.0, b=1.0):
    """rebuild the tree by calling the real RefinementObjectSingleDimension.refine() and compare"""
    import numpy as np
    from sparseSpACE.RefinementObject import RefinementObjectSingleDimension
    from sparseSpACE.Grid import GlobalTrapezoidalGrid
    grid = GlobalTrapezoidalGrid(np.array([a]), np.array([b]))
    target = set(tree[0])
    objs = [RefinementObjectSingleDimension(a, b, 0, 1, [0, 0], grid, a, b)]
    changed = True
    while changed:
        changed = False
        nxt = []
        for o in objs:
            m = grid.get_mid_point(o.start, o.end, 0)
            if m in target:
                new, _, _ = o.refine()
                nxt.extend(new)
                changed = True
            else:
                nxt.append(o)
        objs = nxt
    pts = [objs[0].start] + [o.end for o in objs]
    lvs = [objs[0].levels[0]] + [o.levels[1] for o in objs]
    return [float(p) for p in pts] == [float(p) for p in tree[0]] and [int(l) for l in lvs] == list(tree[1])


def level_assignments(n_inner):
    """all valid level labellings of a sorted point set with n inner points: one per binary-search-tree shape (Catalan(n));
    rebalancing (tree rotation) turns the dyadic labelling into any of them while keeping the points"""
    @functools.lru_cache(maxsize=None)
    def rec(n):
        if n == 0:
            return ((),)
        out = []
        for k in range(n):
            for l in rec(k):
                for r in rec(n - 1 - k):
                    out.append(tuple(x + 1 for x in l) + (1,) + tuple(x + 1 for x in r))
        return tuple(out)
    return [[0] + list(t) + [0] for t in rec(n_inner)]
