"""Oracles on a state of the dimension-wise strategy (used by C03, C04, C06, ...)."""
import itertools
import math

import numpy as np

from mc.core import fail


def hash_function(seed, out_len=2):
    def comps(x):
        s = sum((i + 1.7) * float(xx) for i, xx in enumerate(x))
        return [math.sin(s * 37.1 + seed * 0.61 + j) + 0.25 * j for j in range(out_len)]
    return comps


# ------------------------------------------------------------------ C06: structure
def structure_failures(sa, key):
    out = []
    for dd in range(sa.dim):
        objs = sa.refinement.get_refinement_container_for_dim(dd).get_objects()
        a, b = float(sa.a[dd]), float(sa.b[dd])
        if float(objs[0].start) != a or float(objs[-1].end) != b:
            out.append(fail("tiling_ends", "dim %d: first start %r last end %r, domain [%r,%r]" % (dd, objs[0].start, objs[-1].end, a, b), key))
        for o in objs:
            if not (o.start < o.end):
                out.append(fail("tiling_empty_interval", "dim %d: [%r,%r]" % (dd, o.start, o.end), key))
        for i in range(len(objs) - 1):
            if objs[i].end != objs[i + 1].start:
                out.append(fail("tiling_gap_or_overlap", "dim %d: [%r,%r] followed by [%r,%r]" % (dd, objs[i].start, objs[i].end, objs[i + 1].start, objs[i + 1].end), key))
            if objs[i].levels[1] != objs[i + 1].levels[0]:
                out.append(fail("shared_point_level", "dim %d point %r: levels %r vs %r" % (dd, objs[i].end, objs[i].levels, objs[i + 1].levels), key))
        pts = [float(objs[0].start)] + [float(o.end) for o in objs]
        lv = [objs[0].levels[0]] + [o.levels[1] for o in objs]
        if lv[0] != 0 or lv[-1] != 0:
            out.append(fail("end_point_level", "dim %d: end point levels %r %r" % (dd, lv[0], lv[-1]), key))
        for i in range(1, len(pts) - 1):
            L = lv[i]
            l = next((lv[j] for j in range(i - 1, -1, -1) if lv[j] < L), None)
            r = next((lv[j] for j in range(i + 1, len(pts)) if lv[j] < L), None)
            if l is None or r is None or max(l, r) != L - 1:
                out.append(fail("tree_law", "dim %d point %r level %d: nearest lower levels left %r right %r; levels %r" % (dd, pts[i], L, l, r, lv), key))
                break
        for o in objs:
            if o.coarsening_level != sa.lmax[dd] - max(o.levels):
                out.append(fail("coarsening_value", "dim %d [%r,%r]: coarsening %r, lmax %r, levels %r" % (dd, o.start, o.end, o.coarsening_level, sa.lmax[dd], o.levels), key))
            if o.coarsening_level < 0:
                out.append(fail("coarsening_negative", "dim %d [%r,%r]: %r" % (dd, o.start, o.end, o.coarsening_level), key))
        if sa.lmax[dd] < max(lv):
            out.append(fail("lmax_below_deepest_level", "dim %d: lmax %r deepest %r" % (dd, sa.lmax[dd], max(lv)), key))
    return out


def selection_failures(before, after, margin, key, midpoint=lambda d, s, e: (s + e) / 2):
    """a refinement step splits exactly the intervals whose benefit reaches margin * max benefit"""
    out = []
    benefits = [o[4] for dim in before for o in dim]
    if any(x is None for x in benefits):
        return [fail("benefit_missing", "an interval has no benefit before refine()", key)]
    if any(x < 0 for x in benefits):
        out.append(fail("benefit_negative", "benefits %r" % (benefits,), key))
    bmax = max(benefits)
    thr = bmax * margin
    for d, dim in enumerate(before):
        want = {dim[0][0]} | {o[1] for o in dim}
        for o in dim:
            if o[4] >= thr:
                want.add(midpoint(d, o[0], o[1]))
        got = {after[d][0][0]} | {o[1] for o in after[d]}
        if got != want:
            out.append(fail("margin_selection", "dim %d: benefits %r margin %r: points after %r expected %r"
                            % (d, [o[4] for o in dim], margin, sorted(got), sorted(want)), key))
    return out


# ------------------------------------------------------------------ C03: nested valid combination
def one_d_lists_failures(sa, key):
    out = []
    per = {}
    for c in sa.scheme:
        lv = tuple(int(x) for x in c.levelvector)
        pc, pl, _ = sa.get_point_coord_for_each_dim(c.levelvector)
        for dd in range(sa.dim):
            t = tuple(float(x) for x in pc[dd])
            k = (dd, lv[dd])
            if k in per and per[k] != t:
                out.append(fail("points_depend_on_other_dimensions", "dim %d level %d: %r vs %r (component %r)" % (dd, lv[dd], per[k], t, lv), key))
            per.setdefault(k, t)
            if list(t) != sorted(set(t)):
                out.append(fail("points_sorted", "dim %d level %d: %r" % (dd, lv[dd], t), key))
            if t[0] != float(sa.a[dd]) or t[-1] != float(sa.b[dd]):
                out.append(fail("points_contain_ends", "dim %d level %d: %r" % (dd, lv[dd], t), key))
            if len(pl[dd]) != len(pc[dd]):
                out.append(fail("levels_length", "dim %d level %d: %d levels for %d points" % (dd, lv[dd], len(pl[dd]), len(pc[dd])), key))
    for (dd, l), t in per.items():
        if (dd, l + 1) in per and not set(t) <= set(per[(dd, l + 1)]):
            out.append(fail("points_monotone_in_level", "dim %d: level %d %r not within level %d %r" % (dd, l, t, l + 1, per[(dd, l + 1)]), key))
    return out, per


def combined_points(sa):
    cnt = {}
    for c in sa.scheme:
        pts = sa.get_points_component_grid(c.levelvector)
        if len(set(pts)) != len(pts):
            cnt[("dup", tuple(int(x) for x in c.levelvector))] = None
        for p in pts:
            p = tuple(float(x) for x in p)
            cnt[p] = cnt.get(p, 0) + c.coefficient
    return cnt


def coefficient_sum_failures(sa, key):
    cnt = combined_points(sa)
    out = []
    dups = [k for k in cnt if k and k[0] == "dup"]
    for k in dups:
        out.append(fail("component_points_duplicate", "component %r returns a point twice" % (k[1],), key))
        del cnt[k]
    bad = {p: v for p, v in cnt.items() if v != 1}
    if bad:
        out.append(fail("coefficient_sum_per_point", "points with coefficient sum != 1: %r" % (sorted(bad.items())[:6],), key))
    return out, sorted(cnt)


def reproduction_failures(sa, op, points, key, fvals=None, tol=1e-11):
    """swap the integrand for the vector of all nodal unit functions of the combined grid; sa(points) must be
    the identity.  fvals: values of the function carried during refinement (checked before the swap)."""
    from sparseSpACE.Function import CustomFunction
    out = []
    if not points:
        return out
    if fvals is not None:
        got = np.asarray(sa(points))
        err = np.max(np.abs(got - fvals))
        if not err <= tol * max(1.0, np.max(np.abs(fvals))):
            i = int(np.argmax(np.max(np.abs(got - fvals), axis=1)))
            out.append(fail("reproduce_carried_function", "max error %.3e at point %r" % (err, points[i]), key))
    index = {p: i for i, p in enumerate(points)}
    n = len(points)

    def unit(x):
        v = [0.0] * n
        i = index.get(tuple(float(xx) for xx in x))
        if i is not None:
            v[i] = 1.0
        return v
    old = op.f
    op.f = CustomFunction(unit, output_length=n)
    try:
        got = np.asarray(sa(points))
    finally:
        op.f = old
    err = np.abs(got - np.eye(n))
    if not np.max(err) <= tol:
        i, j = np.unravel_index(int(np.argmax(err)), err.shape)
        out.append(fail("reproduce_unit_functions", "interpolant of unit function at %r evaluated at %r is %r" % (points[j], points[i], got[i, j]), key))
    return out
