"""Reference model of the (dimension-)adaptive combination index set.  Deliberately boring."""
import itertools
from math import comb


def simplex(d, total):
    """all level vectors l>=1 with |l|_1 == total + d - 1 (i.e. sum(l_i - 1) == total - 1)"""
    return [l for l in itertools.product(range(1, total + 1), repeat=d) if sum(l) == total + d - 1]


def initial_sets(d, lmin, lmax):
    """old/active sets of the truncated standard scheme: levels lmin-1+k, |k|_1 = d-1+q"""
    n = lmax - lmin + 1
    active = {tuple(x + lmin - 1 for x in l) for l in simplex(d, n)}
    old = set()
    for q in range(1, n):
        old |= {tuple(x + lmin - 1 for x in l) for l in simplex(d, n - q)}
    return old, active


def update(old, active, l, lmin, d):
    """refinement request on level vector l; returns (old, active, refined_dims or None)"""
    l = tuple(l)
    if l not in active:
        return set(old), set(active), None
    old = set(old) | {l}
    active = set(active) - {l}
    dims = []
    for k in range(d):
        n = list(l)
        n[k] += 1
        ok = True
        for j in range(d):
            b = list(n)
            b[j] -= 1
            if b[j] >= lmin and tuple(b) not in old:
                ok = False
                break
        if ok:
            active.add(tuple(n))
            dims.append(k)
    return old, active, dims


def coefficients(I, d):
    """inclusion-exclusion coefficients by definition c(l) = sum_{z in {0,1}^d} (-1)^|z| [l+z in I]"""
    c = {}
    for l in I:
        v = 0
        for z in itertools.product((0, 1), repeat=d):
            if tuple(a + b for a, b in zip(l, z)) in I:
                v += (-1) ** sum(z)
        if v != 0:
            c[l] = v
    return c


def standard_scheme(d, lmin, lmax):
    """closed form of the truncated standard combination scheme as {levelvec: coefficient}"""
    n = lmax - lmin + 1
    out = {}
    for q in range(min(d, n)):
        for l in simplex(d, n - q):
            out[tuple(x + lmin - 1 for x in l)] = (-1) ** q * comb(d - 1, q)
    return out


def downward_closed(I, lmin):
    for l in I:
        for k in range(len(l)):
            if l[k] > lmin:
                b = list(l)
                b[k] -= 1
                if tuple(b) not in I:
                    return False, (l, k)
    return True, None
