"""Reference model of piecewise-(multi)linear spaces: 1D hierarchical hats on dyadic levels, exact
integrals, tensor products, the basis of the (lmin,lmax) sparse-grid space.  Plain Python floats on
float-exact (dyadic) domains; Fractions where a check asks for them."""
import itertools
from fractions import Fraction

from . import indexset


def hats1d(level_max, boundary, a, b):
    """list of 1D hierarchical functions: ('L',a,b) / ('R',a,b) boundary functions (level 0) and
    (level, centre, halfwidth) inner hats of levels 1..level_max"""
    out = []
    if boundary:
        out += [("L", a, b), ("R", a, b)]
    for l in range(1, level_max + 1):
        h = (b - a) / 2 ** l
        for i in range(1, 2 ** l, 2):
            out.append((l, a + i * h, h))
    return out


def level(fn):
    return 0 if fn[0] in ("L", "R") else fn[0]


def ev1(fn, x):
    if fn[0] == "L":
        return (fn[2] - x) / (fn[2] - fn[1])
    if fn[0] == "R":
        return (x - fn[1]) / (fn[2] - fn[1])
    return max(0.0, 1 - abs(x - fn[1]) / fn[2])


def int1(fn):
    if fn[0] in ("L", "R"):
        return (fn[2] - fn[1]) / 2
    return fn[2]


def sparse_basis(d, lmin, lmax, boundary, a, b):
    """hierarchical tensor hats spanning V = sum_{l in I(lmin,lmax)} V_l : tensor levels k with
    max(k,lmin) componentwise in I (level-0 functions only with boundary)."""
    old, act = indexset.initial_sets(d, lmin, lmax)
    I = old | act
    one = [hats1d(lmax, boundary, a[i], b[i]) for i in range(d)]
    B = []
    for combo in itertools.product(*one):
        k = tuple(max(level(f), lmin) for f in combo)
        if k in I:
            B.append(combo)
    return B


def ev(combo, x):
    p = 1.0
    for fn, xx in zip(combo, x):
        p *= ev1(fn, xx)
    return p


def integral(combo):
    p = 1.0
    for fn in combo:
        p *= int1(fn)
    return p


# ---- piecewise linear interpolant on an arbitrary sorted 1D point set: exact nodal weights
def trapezoid_weights(points, boundary=True, modified=False):
    """exact integrals of the nodal basis functions of the piecewise-linear interpolant on `points`
    (sorted, including both end points a,b).  boundary=False: the end points carry value zero and are not
    grid points (weights returned for inner points only).  modified: linear extrapolation from the two
    outermost inner points towards the ends (inner points only)."""
    P = [Fraction(p) for p in points]
    n = len(P)
    if boundary:
        w = []
        for i in range(n):
            left = (P[i] - P[i - 1]) / 2 if i > 0 else 0
            right = (P[i + 1] - P[i]) / 2 if i < n - 1 else 0
            w.append(left + right)
        return w
    inner = P[1:-1]
    m = len(inner)
    if m == 0:
        return []
    if not modified:
        return [(P[i + 1] - P[i - 1]) / 2 for i in range(1, n - 1)]
    a, b = P[0], P[-1]
    if m == 1:
        return [b - a]          # constant extrapolation of the single value
    w = [Fraction(0)] * m
    # interior cells between inner points
    for i in range(m - 1):
        h = inner[i + 1] - inner[i]
        w[i] += h / 2
        w[i + 1] += h / 2
    # left end cell [a, inner0]: line through (inner0,u0),(inner1,u1) extended
    h0 = inner[0] - a
    h1 = inner[1] - inner[0]
    # value at x: u0 + (u0-u1)*(inner0-x)/h1 ; integral over [a,inner0] = u0*h0 + (u0-u1)*h0^2/(2 h1)
    w[0] += h0 + h0 * h0 / (2 * h1)
    w[1] -= h0 * h0 / (2 * h1)
    hn = b - inner[-1]
    hm = inner[-1] - inner[-2]
    w[-1] += hn + hn * hn / (2 * hm)
    w[-2] -= hn * hn / (2 * hm)
    return w


def interp1(points, values, x, boundary=True):
    """piecewise linear interpolation on sorted points (zero boundary values when boundary False: pass
    points incl. ends with value 0)."""
    import bisect
    i = bisect.bisect_right(points, x) - 1
    i = min(max(i, 0), len(points) - 2)
    t = (x - points[i]) / (points[i + 1] - points[i])
    return values[i] * (1 - t) + values[i + 1] * t
