"""Harness for the extend-split strategy (SpatiallyAdaptiveExtendScheme) and the cell strategy.

The explorer owns (a) which leaf areas are refined in a step, (b) in automatic mode whether a refined area is
extended or split, (c) in single-dimension mode the set of split dimensions.  (a) goes through a scripted
ErrorCalculator (public `errorOperator`); because the library only asks the estimator about *new* areas, an
instance-level wrapper of evaluate_operation re-asks it for every area after each evaluation (the environment's
answer "error of every area" for that step).  (b)/(c) overwrite the benefit / twin-error fields after the real
computation ran (side effects kept).  The real adaptive loop, margin selection, refine() and scheme update run.

event entry: [start(list), end(list), opt]   opt: None | "E" | "S" | [split dims]  (or {"op":..,"dims":..})
"""
import itertools

import numpy as np

LV = 1000


def _key(o):
    return (tuple(float(x) for x in o.start), tuple(float(x) for x in o.end))


def make_scripted(history):
    from sparseSpACE.ErrorCalculator import ErrorCalculator

    class Scripted(ErrorCalculator):
        def __init__(self, history):
            super().__init__(log_level=LV, print_level=LV)
            self.history = history
            self.pointer = 0
            self.limit = len(history)     # the run stops (all errors 0) when the pointer reaches the limit; raised for a continuation

        def table(self):
            if self.pointer < min(len(self.history), self.limit):
                return {(tuple(float(x) for x in e[0]), tuple(float(x) for x in e[1])): e[2] for e in self.history[self.pointer]}
            return {}

        def calc_error(self, ro, norm, volume_weights=None):
            if _key(ro) in self.table():
                ev = getattr(ro, "evaluations", 0)
                return float(ev) if ev else 1.0
            return 0.0

    return Scripted(history)


def leaves(sa):
    return sorted((tuple(float(x) for x in o.start), tuple(float(x) for x in o.end), int(o.coarseningValue),
                   int(o.needExtendScheme)) for o in sa.refinement.get_objects())


def canon(sa):
    return (tuple(leaves(sa)), tuple(int(x) for x in sa.lmax))


def events_towards(sa, config):
    """graded refinement: the leaf containing each target point (alone, or all of them together); deep histories stay small"""
    objs = sorted(sa.refinement.get_objects(), key=_key)
    auto, single = config.get("automatic", False), config.get("single_dim", False)
    d = sa.dim
    picks = []
    for t in config["towards"]:
        for o in objs:
            if all(o.start[k] <= t[k] <= o.end[k] for k in range(d)):
                if o not in picks:
                    picks.append(o)
                break
    sets = [[o] for o in picks] + ([picks] if len(picks) > 1 else [])
    if auto:
        opts = ["E", "S"]
    elif single:
        opts = [[k] for k in range(d)] + [list(range(d))]
    else:
        opts = [None]
    out = []
    for st in sets:
        for combo in itertools.product(opts, repeat=len(st)):
            out.append([[list(_key(o)[0]), list(_key(o)[1]), opt] for o, opt in zip(st, combo)])
    return out


def events(sa, config):
    if config.get("towards"):
        return events_towards(sa, config)
    objs = sorted(sa.refinement.get_objects(), key=_key)
    s = config.get("s", 1)
    d = sa.dim
    auto, single = config.get("automatic", False), config.get("single_dim", False)
    if single:
        dimsets = [list(c) for k in range(1, d + 1) for c in itertools.combinations(range(d), k)]
        if config.get("single_dimsets"):       # restricted menu of split-dimension sets (keeps two-area rounds enumerable)
            dimsets = [list(x) for x in config["single_dimsets"]]
    out = []
    for k in range(1, s + 1):
        for ch in itertools.combinations(range(len(objs)), k):
            opts_per = []
            for i in ch:
                if auto and single:
                    opts = ["E"] + [{"op": "S", "dims": ds} for ds in dimsets]
                elif auto:
                    opts = ["E", "S"]
                elif single:
                    opts = dimsets
                else:
                    opts = [None]
                opts_per.append(opts)
            for combo in itertools.product(*opts_per):
                out.append([[list(_key(objs[i])[0]), list(_key(objs[i])[1]), opt] for i, opt in zip(ch, combo)])
    if config.get("special", True) and len(objs) > s and not auto and not single:
        out.append([[list(_key(o)[0]), list(_key(o)[1]), None] for o in objs])
    return out


def make_grid(config, a, b):
    from sparseSpACE import Grid as G
    name = config.get("grid", "trapezoidal")
    if name == "trapezoidal":
        return G.TrapezoidalGrid(a, b, boundary=config.get("boundary", True))
    if name.startswith("lagrange"):
        return G.LagrangeGrid(a, b, boundary=True, p=int(name[-1]))
    if name.startswith("bspline"):
        return G.BSplineGrid(a, b, boundary=True, p=int(name[-1]))
    if name == "simpson":
        return G.SimpsonGrid(a, b, boundary=True)
    if name == "clenshaw_curtis":
        return G.ClenshawCurtisGrid(a, b, boundary=True)
    raise ValueError(name)


class Run:
    pass


def build_real(config, comps, out_len, strategy, max_evaluations, tol=0.0, observer=None, **kw):
    """same objects, but the library's own estimator and a real integrand drive the refinement"""
    from sparseSpACE.spatiallyAdaptiveExtendSplit import SpatiallyAdaptiveExtendScheme
    from sparseSpACE.spatiallyAdaptiveCell import SpatiallyAdaptiveCellScheme
    from sparseSpACE.GridOperation import Integration
    from sparseSpACE.Grid import TrapezoidalGrid
    from sparseSpACE.Function import CustomFunction
    from sparseSpACE.ErrorCalculator import ErrorCalculatorExtendSplit, ErrorCalculatorSurplusCell
    d = config["d"]
    a = np.array(config.get("a", [0.0] * d), dtype=float)
    b = np.array(config.get("b", [1.0] * d), dtype=float)
    grid = TrapezoidalGrid(a, b, boundary=config.get("boundary", True))
    f = CustomFunction(comps, output_length=out_len)
    op = Integration(f, grid=grid, dim=d, reference_solution=config.get("reference"))
    if strategy == "es":
        sa = SpatiallyAdaptiveExtendScheme(a, b, number_of_refinements_before_extend=config.get("nref", 1),
                                           version=config.get("version", 0),
                                           automatic_extend_split=config.get("automatic", False),
                                           split_single_dim=config.get("single_dim", False), operation=op,
                                           norm=config.get("norm", np.inf))
        eo = ErrorCalculatorExtendSplit()
    else:
        sa = SpatiallyAdaptiveCellScheme(a, b, operation=op, norm=config.get("norm", np.inf))
        eo = ErrorCalculatorSurplusCell()
    sa.log_util.set_print_level(LV)
    sa.log_util.set_log_level(LV)
    r = Run()
    r.sa, r.op, r.eo, r.config, r.trace = sa, op, eo, config, []
    orig_eval = sa.evaluate_operation

    def eval_wrapper():
        out = orig_eval()
        r.trace.append(np.array(op.get_result(), dtype=float).copy())
        if observer is not None:
            observer(r)
        return out
    sa.evaluate_operation = eval_wrapper
    r.result = sa.performSpatiallyAdaptiv(config["lmin"], config["lmax"], eo, tol=tol, max_evaluations=max_evaluations,
                                          print_output=False, **kw)
    return r


def build(config, history, comps, out_len, strategy="es", tol=0.5, perform_kwargs=None, recalc_every=None, resume=None, time_stop=None):
    """resume = (k, how): the run is stopped after k scripted steps and continued for the remaining ones, how = "continue"
    (continue_adaptive_refinement) or "container" (performSpatiallyAdaptiv(refinement_container=...))"""
    from sparseSpACE.spatiallyAdaptiveExtendSplit import SpatiallyAdaptiveExtendScheme
    from sparseSpACE.spatiallyAdaptiveCell import SpatiallyAdaptiveCellScheme
    from sparseSpACE.GridOperation import Integration
    from sparseSpACE.Grid import TrapezoidalGrid
    from sparseSpACE.Function import CustomFunction
    from mc.core import HarnessError
    d = config["d"]
    a = np.array(config.get("a", [0.0] * d), dtype=float)
    b = np.array(config.get("b", [1.0] * d), dtype=float)
    grid = make_grid(config, a, b)
    f = CustomFunction(comps, output_length=out_len)
    op = Integration(f, grid=grid, dim=d, reference_solution=None)
    if strategy == "es":
        sa = SpatiallyAdaptiveExtendScheme(a, b, number_of_refinements_before_extend=config.get("nref", 1),
                                           version=config.get("version", 0),
                                           automatic_extend_split=config.get("automatic", False),
                                           split_single_dim=config.get("single_dim", False), operation=op)
    else:
        sa = SpatiallyAdaptiveCellScheme(a, b, operation=op)
    sa.log_util.set_print_level(LV)
    sa.log_util.set_log_level(LV)
    eo = make_scripted(history)
    r = Run()
    r.sa, r.op, r.eo, r.config, r.snaps, r.steps = sa, op, eo, config, [], []
    if recalc_every is not None:
        sa.refinements_for_recalculate = recalc_every
    orig_eval, orig_refine = sa.evaluate_operation, sa.refine

    r.vclock = None

    def eval_wrapper():
        orig_eval()
        if r.vclock is not None:
            r.vclock.advance(1.0)        # one unit of virtual time per completed evaluation
        r.steps.append((np.array(op.get_result(), dtype=float).copy(), sa.get_total_num_points()))
        for i in range(sa.refinement.size()):
            sa.refinement.calc_error(i, sa.norm)
            sa.refinement.set_benefit(i)
        sa.benefit_max = sa.refinement.get_max_benefit()
        sa.total_error = sa.refinement.get_total_error()
        return sa.total_error, sa.total_error

    def refine_wrapper():
        before = leaves(sa) if strategy == "es" else None
        lmax_before = tuple(int(x) for x in sa.lmax)
        orig_refine()
        r.snaps.append((before, leaves(sa) if strategy == "es" else None, lmax_before))
        eo.pointer += 1

    sa.evaluate_operation = eval_wrapper
    sa.refine = refine_wrapper

    if strategy == "es":
        orig_cb = sa.compute_benefits_for_operations
        orig_do = sa.do_refinement

        def opt_of(area):
            return eo.table().get(_key(area))

        def cb_wrapper(area):
            orig_cb(area)
            opt = opt_of(area)
            op_ = opt["op"] if isinstance(opt, dict) else opt
            if op_ == "E":
                area.parent_info.benefit_extend, area.parent_info.benefit_split = 0.0, 1.0
            elif op_ == "S":
                area.parent_info.benefit_extend, area.parent_info.benefit_split = 1.0, 0.0
            else:
                raise HarnessError("automatic mode needs an E/S decision for %r" % (_key(area),))
            if area.switch_to_parent_estimation:
                area.parent_info.extend_error_correction = 0.0

        def do_wrapper(area, position):
            opt = opt_of(area)
            dims = opt["dims"] if isinstance(opt, dict) else (opt if isinstance(opt, list) else None)
            if config.get("single_dim", False) and dims is not None:
                area.twinErrors = [1.0 if k in dims else 0.0 for k in range(sa.dim)]
            return orig_do(area, position)

        sa.compute_benefits_for_operations = cb_wrapper
        sa.do_refinement = do_wrapper

    if time_stop is not None:
        # the run is ended by its TIME budget after evaluation number time_stop (0-based; virtual clock, mc/clock.py)
        from mc import clock
        with clock.virtual_clock() as vt:
            r.vclock = vt
            r.result = sa.performSpatiallyAdaptiv(config["lmin"], config["lmax"], eo, tol=tol, print_output=False,
                                                  max_time=time_stop + 0.5, **(perform_kwargs or {}))
        r.vclock = None
        r.steps_executed = eo.pointer
        return r
    if resume is not None:
        eo.limit = min(resume[0], len(history))
    r.result = sa.performSpatiallyAdaptiv(config["lmin"], config["lmax"], eo, tol=tol, print_output=False,
                                          **(perform_kwargs or {}))
    if resume is not None:
        eo.limit = len(history)
        if resume[1] == "save_restore":
            # persist the stopped instance, continue the RESTORED copy (its own copy of the scripted estimator and of the wrappers)
            import os
            path = os.path.join(os.getcwd(), "resume_%d.dill" % os.getpid())
            sa.save_to_file(path)
            sa = type(sa).restore_from_file(path)
            os.remove(path)
            eo = sa.errorEstimator
            eo.limit = len(history)
            r.sa, r.op, r.eo = sa, sa.operation, eo
            r.result = sa.continue_adaptive_refinement(tol=tol)
        elif resume[1] == "continue":
            r.result = sa.continue_adaptive_refinement(tol=tol)
        elif resume[1] == "final_combi_then_continue":
            # the user asks for a from-scratch re-evaluation of the stopped run, looks at it, and then continues the run
            r.final_combi = np.array(sa.evaluate_final_combi()[0], dtype=float).copy()
            r.result = sa.continue_adaptive_refinement(tol=tol)
        else:
            r.result = sa.performSpatiallyAdaptiv(config["lmin"], config["lmax"], eo, tol=tol, print_output=False,
                                                  refinement_container=r.result[0], **(perform_kwargs or {}))
    if eo.pointer != len(history):
        raise HarnessError("adaptive loop executed %d of %d scripted steps" % (eo.pointer, len(history)))
    return r
