"""Virtual clock seam for the adaptive driver (`max_time`).

`sparseSpACE.spatiallyAdaptiveBase` reads the clock through its module-level name `time`; the harness replaces that name by an object
whose two clocks are owned by the explorer.  As on a real machine the two clocks have DIFFERENT epochs (perf_counter counts from an
arbitrary origin, time() from 1970), so code that mixes them misbehaves here exactly as it does in reality.  The harness advances the
virtual time by one unit per completed evaluation, which makes "the time budget is exceeded after evaluation k" an enumerable event.
"""
import contextlib
import time as _real_time


class VirtualTime:
    EPOCH = 1.7e9

    def __init__(self):
        self.now = 0.0

    def advance(self, dt=1.0):
        self.now += dt

    def perf_counter(self):
        return 1234.5 + self.now

    def time(self):
        return self.EPOCH + self.now

    def __getattr__(self, name):          # everything else (sleep, time_ns, ...) is the real module
        return getattr(_real_time, name)


@contextlib.contextmanager
def virtual_clock():
    import sparseSpACE.spatiallyAdaptiveBase as base
    vt = VirtualTime()
    old = base.time
    base.time = vt
    try:
        yield vt
    finally:
        base.time = old
