"""Harness for the dimension-wise spatially adaptive strategy (SpatiallyAdaptiveSingleDimensions2).

The explorer owns the refinement decisions through a scripted ErrorCalculator passed as the public
`errorOperator`; the *real* adaptive loop (performSpatiallyAdaptiv / continue_adaptive_refinement) and the
real margin selection in refine() run.  An event is a list of [dim, start, end] (benefit 1) or
[dim, start, end, benefit] entries; every other interval gets benefit 0.  When the history is exhausted all
errors are 0 <= tol and the real loop stops by itself.
"""
import itertools

import numpy as np

LV = 1000  # print/log level that really silences the library (its NONE=0 prints everything)


def _imports():
    from sparseSpACE.spatiallyAdaptiveSingleDimension2 import SpatiallyAdaptiveSingleDimensions2
    from sparseSpACE.GridOperation import Integration
    from sparseSpACE.Grid import GlobalTrapezoidalGrid
    from sparseSpACE.Function import CustomFunction
    from sparseSpACE.ErrorCalculator import ErrorCalculator
    return SpatiallyAdaptiveSingleDimensions2, Integration, GlobalTrapezoidalGrid, CustomFunction, ErrorCalculator


def make_scripted(history):
    ErrorCalculator = _imports()[4]

    class Scripted(ErrorCalculator):
        def __init__(self, history):
            super().__init__(log_level=LV, print_level=LV)
            self.history = history
            self.pointer = 0
            self.limit = len(history)     # the run stops (all errors 0) when the pointer reaches the limit; raised for a continuation
            self._table = None
            self._table_for = None

        def table(self):
            if self._table_for != self.pointer:
                t = {}
                if self.pointer < min(len(self.history), self.limit):
                    for e in self.history[self.pointer]:
                        t[(int(e[0]), float(e[1]), float(e[2]))] = float(e[3]) if len(e) > 3 else 1.0
                self._table, self._table_for = t, self.pointer
            return self._table

        def calc_error(self, ro, norm, volume_weights=None):
            return self.table().get((int(ro.this_dim), float(ro.start), float(ro.end)), 0.0)

    return Scripted(history)


def structure(sa, with_benefit=False):
    out = []
    for d in range(sa.dim):
        objs = sa.refinement.get_refinement_container_for_dim(d).get_objects()
        if with_benefit:
            out.append(tuple((float(o.start), float(o.end), tuple(int(x) for x in o.levels), int(o.coarsening_level),
                              None if o.benefit is None else float(o.benefit)) for o in objs))
        else:
            out.append(tuple((float(o.start), float(o.end), tuple(int(x) for x in o.levels), int(o.coarsening_level))
                             for o in objs))
    return tuple(out)


def canon(sa):
    return (structure(sa), tuple(int(x) for x in sa.lmax),
            tuple(sorted(sa.combischeme.old_index_set)), tuple(sorted(sa.combischeme.active_index_set)))


def intervals(sa):
    return [(d, float(o.start), float(o.end)) for d in range(sa.dim)
            for o in sa.refinement.get_refinement_container_for_dim(d).get_objects()]


def events(sa, s, special=True):
    """all subsets of size <= s of the current intervals (over all dimensions) plus 'all' and
    'all of one dimension'"""
    iv = intervals(sa)
    out = []
    seen = set()
    for k in range(1, s + 1):
        for ch in itertools.combinations(range(len(iv)), k):
            ev = [list(iv[i]) for i in ch]
            out.append(ev)
            seen.add(frozenset(ch))
    if special:
        cands = [tuple(range(len(iv)))]
        for d in range(sa.dim):
            cands.append(tuple(i for i, x in enumerate(iv) if x[0] == d))
        for ch in cands:
            if ch and frozenset(ch) not in seen:
                seen.add(frozenset(ch))
                out.append([list(iv[i]) for i in ch])
    return out


def events_towards(sa, targets):
    """graded refinement: per target point, the interval(s) containing it - in one dimension, or in all dimensions at once.
    Few events per state, so histories can go deep (levels lmax+5 and more), the pattern a peaked integrand produces."""
    iv = intervals(sa)
    out, seen = [], set()
    for t in targets:
        per_dim = []
        for d in range(sa.dim):
            cand = [x for x in iv if x[0] == d and x[1] <= t[d] <= x[2]]
            if cand:
                per_dim.append(list(cand[0]))
        choices = [[x] for x in per_dim] + ([per_dim] if len(per_dim) > 1 else [])
        for ev in choices:
            k = tuple(tuple(x) for x in ev)
            if k not in seen:
                seen.add(k)
                out.append(ev)
    return out


def events_for(sa, config):
    """event menu selected by the configuration: all subsets up to size s (default) or graded refinement towards target points"""
    if config.get("towards"):
        return events_towards(sa, config["towards"])
    return events(sa, config.get("s", 1))


class Run:
    pass


def global_grid(config, a, b):
    """global (dimension-wise) grid family selected by config['grid'] (default: trapezoidal)"""
    from sparseSpACE import Grid as G
    name = config.get("grid", "trapezoidal")
    bnd, mod = config.get("boundary", True), config.get("modified_basis", False)
    if name == "trapezoidal":
        return G.GlobalTrapezoidalGrid(a, b, boundary=bnd, modified_basis=mod)
    if name.startswith("highorder"):           # highorder<p>[s]  (s = split_up)
        return G.GlobalHighOrderGrid(a, b, boundary=bnd, modified_basis=mod, max_degree=int(name[9]), split_up=name.endswith("s"))
    if name.startswith("lagrange"):
        return G.GlobalLagrangeGrid(a, b, boundary=bnd, modified_basis=mod, p=int(name[8:]))
    if name.startswith("bspline"):
        return G.GlobalBSplineGrid(a, b, boundary=bnd, modified_basis=mod, p=int(name[7:]))
    if name == "romberg":
        from sparseSpACE.Extrapolation import SliceGrouping, SliceVersion, SliceContainerVersion
        return G.GlobalRombergGrid(a, b, boundary=bnd, modified_basis=mod, slice_grouping=SliceGrouping.UNIT,
                                   slice_version=SliceVersion.ROMBERG_DEFAULT, container_version=SliceContainerVersion.ROMBERG_DEFAULT)
    raise ValueError(name)


def build(config, history, comps, out_len, estimator=None, grid=None, operation=None, tol=0.5, perform=True,
          vectorized=None, perform_kwargs=None, sa_kwargs=None, observer=None, resume=None, time_stop=None):
    """Construct fresh real objects for `config`, run the real adaptive loop along `history`.
    comps: callable x -> list of out_len floats (component 0 conventionally 'drives', with the scripted
    estimator it is irrelevant).  Returns a Run with sa, op, eo, snaps [(before, after)], result."""
    SA, Integration, GlobalTrapezoidalGrid, CustomFunction, _ = _imports()
    d = config["d"]
    a = np.array(config.get("a", [0.0] * d), dtype=float)
    b = np.array(config.get("b", [1.0] * d), dtype=float)
    if grid is None:
        grid = global_grid(config, a, b)
    if operation is None:
        f = CustomFunction(comps, output_length=out_len)
        op = Integration(f, grid=grid, dim=d, reference_solution=None)
    else:
        op = operation
    kw = dict(sa_kwargs or {})
    if config.get("margin") is not None:
        kw["margin"] = config["margin"]
    for opt in ("dim_adaptive", "chebyshev_points", "use_volume_weighting", "force_balanced_refinement_tree"):
        if config.get(opt) is not None:      # rarely used public constructor options (default: not passed at all)
            kw[opt] = config[opt]
    sa = SA(a, b, version=config.get("version", 6), operation=op, rebalancing=config.get("rebalancing", True),
            rebalancing_safety_factor=config.get("safety", 0.1), print_level=LV, log_level=LV, **kw)
    eo = estimator if estimator is not None else make_scripted(history)
    r = Run()
    r.sa, r.op, r.eo, r.snaps, r.config = sa, op, eo, [], config
    orig_refine = sa.refine

    def refine_wrapper():
        before = structure(sa, with_benefit=True)
        bmax = sa.benefit_max
        orig_refine()
        r.snaps.append((before, structure(sa), bmax))
        if hasattr(eo, "pointer"):
            eo.pointer += 1

    sa.refine = refine_wrapper
    r.vclock = None
    if observer is not None or time_stop is not None:
        orig_eval = sa.evaluate_operation

        def eval_wrapper():
            out = orig_eval()
            if r.vclock is not None:
                r.vclock.advance(1.0)        # one unit of virtual time per completed evaluation
            if observer is not None:
                observer(r)
            return out
        sa.evaluate_operation = eval_wrapper
    if perform and time_stop is not None:
        # the run is ended by its TIME budget after evaluation number time_stop (0-based) - virtual clock owned by the harness,
        # see mc/clock.py - i.e. after time_stop scripted refinement steps, although the script would go on
        from mc import clock
        from mc.core import HarnessError
        with clock.virtual_clock() as vt:
            r.vclock = vt
            r.result = sa.performSpatiallyAdaptiv(config["lmin"], config["lmax"], eo, tol=tol, print_output=False,
                                                  max_time=time_stop + 0.5, **(perform_kwargs or {}))
        r.vclock = None
        r.steps_executed = eo.pointer
        return r
    if perform:
        if resume is not None:      # (k, how): stop after k scripted steps, then continue ("continue" / "container")
            eo.limit = min(resume[0], len(history))
        r.result = sa.performSpatiallyAdaptiv(config["lmin"], config["lmax"], eo, tol=tol, print_output=False,
                                              **(perform_kwargs or {}))
        if resume is not None:
            eo.limit = len(history)
            eo._table_for = None
            if resume[1] == "save_restore":
                # persist the stopped instance, continue the RESTORED copy (its own copy of the scripted estimator and of the wrappers)
                import os
                path = os.path.join(os.getcwd(), "resume_%d.dill" % os.getpid())
                sa.save_to_file(path)
                sa = type(sa).restore_from_file(path)
                os.remove(path)
                eo = sa.errorEstimator
                eo.limit = len(history)
                r.sa, r.op, r.eo = sa, sa.operation, eo
                r.result = sa.continue_adaptive_refinement(tol=tol)
            elif resume[1] == "continue":
                r.result = sa.continue_adaptive_refinement(tol=tol)
            else:
                r.result = sa.performSpatiallyAdaptiv(config["lmin"], config["lmax"], eo, tol=tol, print_output=False,
                                                      refinement_container=r.result[0], **(perform_kwargs or {}))
        if hasattr(eo, "pointer") and eo.pointer != len(history):
            from mc.core import HarnessError
            raise HarnessError("adaptive loop executed %d of %d scripted steps" % (eo.pointer, len(history)))
    return r
