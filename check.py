#!/venv/bin/python
"""CLI of the bounded-exhaustive checker.

  check.py <ID> [--tier quick|thorough]        run the check, write evidence/<ID>.json
  check.py <ID> --replay replays/<ID>-n.json   re-execute one stored case without the explorer
  check.py <ID> --digest case.json             (internal) determinism probe in a fresh process

Exit 0: property held on everything explored (known findings are printed, not counted);
exit 1: `VIOLATION property=<ID> replay=<path>` printed; exit 2: harness error (no verdict).
"""
import argparse
import importlib
import json
import os
import sys
import traceback

HERE = os.path.dirname(os.path.abspath(__file__))
sys.path.insert(0, HERE)
if os.environ.get("VERIF_REPO"):
    # development aid only (evaluating a seeded change in its own scratch worktree without touching /repo); the registered
    # commands never set it, so they always import sparseSpACE from /repo's working tree (editable install)
    sys.path.insert(0, os.environ["VERIF_REPO"])

from mc import core  # noqa: E402


def main():
    ap = argparse.ArgumentParser()
    ap.add_argument("pid")
    ap.add_argument("--tier", default=os.environ.get("VERIF_TIER", "quick"), choices=["quick", "thorough"])
    ap.add_argument("--replay")
    ap.add_argument("--digest")
    args = ap.parse_args()
    seed = int(os.environ.get("VERIF_SEED", "0") or 0)
    if os.environ.get("PYTHONHASHSEED") != "0":  # hash order must not be a source of nondeterminism
        os.environ["PYTHONHASHSEED"] = "0"
        os.execv(sys.executable, [sys.executable] + sys.argv)
    core.setup_environment()
    pid = args.pid.upper()
    mod = importlib.import_module("checks.%s" % pid.lower())
    if hasattr(mod, "set_seed"):
        mod.set_seed(seed)

    if args.digest:
        case = json.load(open(args.digest))
        res = core.safe_run_case(mod.run_case, case)
        print("DIGEST", core.digest((res["canon"], res["outcome"], res["failures"])))
        return 0

    if args.replay:
        rec = json.load(open(args.replay))
        case = rec.get("case", rec)
        res = core.safe_run_case(mod.run_case, case)
        known = {f["signature"] for f in core.load_findings() if f["status"] == "known"}
        bad = 0
        for f in res["failures"]:
            sig = core.signature(pid, f)
            if sig in known:
                print("KNOWN-FINDING: property=%s %s" % (pid, sig))
            else:
                bad += 1
                print("VIOLATION property=%s replay=%s  (%s)\n  %s" % (pid, args.replay, sig, f["detail"]))
        if not bad:
            print("replay: no violation")
        return 1 if bad else 0

    ctx = core.Context(pid, args.tier, seed, mod.run_case)
    try:
        rc = mod.main(ctx)
        ok = core.validate_evidence(pid)
        if ok is not None and not ok[0]:
            print("HARNESS-ERROR evidence does not validate: %s" % ok[1])
            return core.EXIT_HARNESS
        return rc
    except core.HarnessError as e:
        print("HARNESS-ERROR %s" % e)
        return core.EXIT_HARNESS
    except Exception:
        traceback.print_exc()
        print("HARNESS-ERROR unexpected exception in the checker")
        return core.EXIT_HARNESS
    finally:
        ctx.close()


if __name__ == "__main__":
    sys.exit(main())
