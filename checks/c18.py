"""C18 - DataSet transformations preserve the labelled samples.

ALL operation sequences up to depth 4 (thorough: additionally depth 5 over the 14 state-changing core operations) over a 35-operation alphabet (incl. operations on derived objects: copies and split pieces) on real DataSet objects (initial sets: empty,
single sample, two samples, ties in min/max with an unlabelled sample, one-dimensional, integer dtype), compared after every step
with a reference model: the multiset of (sample,label) pairs, the affine bookkeeping since the last overriding
rescale, and field-by-field propagation of the scaling attributes.  `shuffle` is put under the explorer's control
(every permutation for n<=3, a fixed menu otherwise).
"""
import copy
import itertools

import numpy as np

from mc import core
from mc.core import fail

PID = "C18"
PERM = [None]


def _install_shuffle():
    import sparseSpACE.DEMachineLearning as M

    def scripted(seq, *a, **k):
        seq = list(seq)
        p = PERM[0]
        if p is not None and len(p) == len(seq):
            return [seq[i] for i in p]
        return list(reversed(seq))
    M.shuffle = scripted


INITS = {
    "empty": (np.array([]), np.array([])),
    "one": (np.array([[0.5, 2.0]]), np.array([1])),
    "two": (np.array([[0.0, 1.0], [2.0, 3.0]]), np.array([0, 1])),
    "ties": (np.array([[0.0, 1.0], [2.0, 1.0], [2.0, 5.0], [1.0, 3.0]]), np.array([0, 1, 1, -1])),
    "d1": (np.array([[1.0], [4.0], [2.0]]), np.array([2, 0, -1])),
    "ints": (np.array([[1, 3], [6, 2], [3, 3]]), np.array([0, 1, 1])),       # integer-valued sample array (dtype int)
    "far": (np.array([[1048576.0, 1.0], [1048578.0, 3.0], [1048577.5, 1.0]]), np.array([1, 0, 1])),   # offset large compared with the extent
}
OPS = ["sr01", "sr-12", "sr01_override", "sf2", "sf_neg", "sf_vec", "sf_vec_neg", "shift.5", "shift_vec", "shift0", "sf_int1", "revert", "shuffle_rev", "shuffle_rot", "mbf",
       "split_labels_cat", "split_pieces.5_cat", "split_pieces0_cat", "split_pieces1_cat", "split_nolabel_cat",
       "rm0", "rm_dup", "rm_oor", "rm_neg", "cat_diff_scaled", "sf_badlen", "shift_badlen",
       # an operation applied to an object DERIVED from the data set (copy / a split_labels piece) must leave the data set itself alone
       "derived_copy_sf2", "derived_copy_sfvec", "derived_copy_revert", "derived_copy_sr", "derived_split_sf2", "derived_split_sfvec",
       "derived_split_revert", "derived_split_sr"]


def _ms(ds):
    X, y = ds.get_data()
    if ds.is_empty():
        return []
    return sorted((tuple(float(v) for v in np.round(np.atleast_1d(x), 9)), int(l)) for x, l in zip(np.atleast_2d(X), y))


def _attrs(ds):
    def c(v):
        if v is None:
            return None
        return tuple(float(t) for t in np.round(np.atleast_1d(np.array(v, dtype=float)).ravel(), 9))
    return (bool(ds.is_scaled()), c(ds.get_scaling_range()), c(ds.get_scaling_factor()), c(ds.get_original_min()), c(ds.get_original_max()))


class Refusal(Exception):
    pass


COORD_OPS = ("sr01", "sr-12", "sr01_override", "sf2", "sf_neg", "sf_vec", "sf_vec_neg", "shift.5", "shift_vec", "shift0", "sf_int1")


def _apply(ds, op, model):
    """_apply_inner plus a second, removal-proof model of revert: every scaling operation is an affine map per dimension; the model
    composes these maps (F, S: current = F * reference + S, reference = samples at the first scaling since the last overriding one).
    At revert every SURVIVING sample - whatever was removed, split off or concatenated in between - must return to (current - S) / F."""
    if op not in COORD_OPS and op != "revert":
        return _apply_inner(ds, op, model)
    n, dim = ds.get_length(), ds.get_dim()
    B = np.array(ds.get_data()[0], dtype=float).reshape(n, -1).copy() if n else None
    was_scaled = bool(ds.is_scaled()) if n else False
    omin = None if (not n or ds.get_original_min() is None) else np.atleast_1d(np.array(ds.get_original_min(), dtype=float)).copy()
    F, S, ok = model.get("F"), model.get("S"), model.get("affine_ok", False)
    ds2, issues = _apply_inner(ds, op, model)
    if not n:
        return ds2, issues
    A = np.array(ds2.get_data()[0], dtype=float).reshape(n, -1)
    if op == "revert":
        if ok and F is not None and A.shape == B.shape:
            want = (B - S) / F
            contains = omin is not None and omin.shape == (A.shape[1],) and bool(np.all(np.abs(want.min(axis=0) - omin) <= 1e-8 * np.maximum(1.0, np.abs(omin))))
            if not np.all(np.abs(A - want) <= 1e-8 * np.maximum(1.0, np.abs(want))):
                issues.append(("revert_restores_surviving_samples", "samples before revert %r, after %r, reference positions of these samples %r (original minimum %r)"
                               % (B.tolist(), A.tolist(), want.tolist(), None if omin is None else omin.tolist()), {"set_contains_original_minimum": contains}))
        model["F"], model["S"], model["affine_ok"] = None, None, False
        return ds2, issues
    if A.shape != B.shape:
        model["affine_ok"] = False
        return ds2, issues
    if (not was_scaled) or op.endswith("override"):
        F, S, ok = np.ones(A.shape[1]), np.zeros(A.shape[1]), True      # the reference is the set as it was before this operation
    f, sh = np.ones(A.shape[1]), np.zeros(A.shape[1])
    for k in range(A.shape[1]):
        i, j = int(np.argmin(B[:, k])), int(np.argmax(B[:, k]))
        if B[j, k] - B[i, k] > 1e-12:
            f[k] = (A[j, k] - A[i, k]) / (B[j, k] - B[i, k])
            sh[k] = A[i, k] - f[k] * B[i, k]
        elif op.startswith("sf"):
            fac = {"sf2": 2.0, "sf_neg": -2.0, "sf_int1": 1.0}.get(op)
            f[k] = fac if fac is not None else ([2.0, 0.5] if op == "sf_vec" else [-1.5, 0.5])[k]
        else:
            sh[k] = A[i, k] - B[i, k]          # zero extent: a range scaling can only move the dimension
        if abs(f[k]) < 1e-300:
            ok = False
    if ok and F is not None:
        model["F"], model["S"], model["affine_ok"] = f * F, f * S + sh, True
    else:
        model["affine_ok"] = False
    return ds2, issues


def _apply_inner(ds, op, model):
    """returns (ds, issues); issues = list of (oracle, detail)"""
    from sparseSpACE.DEMachineLearning import DataSet
    issues = []
    before, battr, dim, n = _ms(ds), _attrs(ds), ds.get_dim(), ds.get_length()

    def remember():
        model["orig"] = copy.deepcopy(_ms(ds))
        model["valid"] = True
    if op in ("sr01", "sr-12", "sr01_override"):
        r = {"sr01": (0.0, 1.0), "sr-12": (-1.0, 2.0), "sr01_override": (0.0, 1.0)}[op]
        ov = op.endswith("override")
        if n == 0:
            raise Refusal()
        if (not ds.is_scaled()) or ov:
            remember()
        ds.scale_range(r, override_scaling=ov)
        X = ds.get_data()[0]
        mn, mx = X.min(axis=0), X.max(axis=0)
        omn, omx = np.array([p[0] for p in before]).min(axis=0), np.array([p[0] for p in before]).max(axis=0)
        for k in range(dim):
            if omx[k] - omn[k] > 1e-12 and (not (abs(mn[k] - r[0]) <= 1e-9) or not (abs(mx[k] - r[1]) <= 1e-9)):
                issues.append(("scale_range_ends", "dimension %d: min %r max %r, range %r" % (k, mn[k], mx[k], r)))
        if sorted(l for _, l in _ms(ds)) != sorted(l for _, l in before):
            issues.append(("labels_changed", "labels after scale_range %r" % (r,)))
        if list(ds.get_data()[1]) != [int(l) for l in model.get("_labels_before", ds.get_data()[1])]:
            pass
    elif op in ("sf2", "sf_neg", "sf_vec", "sf_vec_neg", "shift.5", "shift_vec", "shift0", "sf_int1"):
        if n == 0:
            raise Refusal()
        if not ds.is_scaled():
            remember()
        order_before = [tuple(np.atleast_1d(x)) for x in ds.get_data()[0]]
        if op == "sf2":
            ds.scale_factor(2.0)
            want = [tuple(2.0 * v for v in x) for x in order_before]
        elif op == "sf_neg":
            ds.scale_factor(-2.0)
            want = [tuple(-2.0 * v for v in x) for x in order_before]
        elif op in ("sf_vec", "sf_vec_neg"):
            fvec = np.array(([2.0, 0.5] if op == "sf_vec" else [-1.5, 0.5])[:dim])
            ds.scale_factor(fvec)
            want = [tuple(v * f for v, f in zip(x, fvec)) for x in order_before]
        elif op == "shift.5":
            ds.shift_value(0.5)
            want = [tuple(v + 0.5 for v in x) for x in order_before]
        elif op == "shift0":        # falsy but legal: a shift by 0.0 is a (first) scaling like any other
            ds.shift_value(0.0)
            want = [tuple(float(v) for v in x) for x in order_before]
        elif op == "sf_int1":       # the factor 1 spelled as a Python int
            ds.scale_factor(1)
            want = [tuple(float(v) for v in x) for x in order_before]
        else:
            svec = np.array([0.25, -1.0][:dim])
            ds.shift_value(svec)
            want = [tuple(v + s for v, s in zip(x, svec)) for x in order_before]
        got = [tuple(np.atleast_1d(x)) for x in ds.get_data()[0]]
        if len(got) != len(want) or any(not (abs(g - w) <= 1e-9) for a, b in zip(got, want) for g, w in zip(a, b)):
            issues.append(("affine_map", "%s: samples %r expected %r" % (op, got, want)))
        if sorted(l for _, l in _ms(ds)) != sorted(l for _, l in before):
            issues.append(("labels_changed", op))
    elif op in ("sf_badlen", "shift_badlen"):
        # a per-dimension factor / shift of the wrong length on an already scaled set is refused by the library (ValueError); the caller
        # catches it and goes on: the refused request must not have changed the samples or the scaling attributes (checked here), and
        # a later revert must still restore the original samples (checked by the model, which this request leaves untouched)
        if n == 0 or not ds.is_scaled():
            raise Refusal()      # on an unscaled set the first-scaling branch has no length check: undefined territory
        # factor: length 1 where dim >= 2 (broadcast-compatible with everything, so only the library's own check refuses it), else too long
        vec = (np.array([2.0]) if dim > 1 else np.array([2.0, 0.5])) if op == "sf_badlen" else np.array([0.25, -1.0, 0.5][:dim + 1])
        try:
            (ds.scale_factor if op == "sf_badlen" else ds.shift_value)(vec)
            issues.append(("wrong_length_refused", "%s(%r) on a %d-dimensional scaled set accepted" % (op, vec.tolist(), dim)))
        except ValueError:
            if _ms(ds) != before or _attrs(ds) != battr:
                issues.append(("refused_request_leaves_data", "%s(%r) was refused but changed the data set: samples %r -> %r, attributes %r -> %r"
                               % (op, vec.tolist(), before, _ms(ds), battr, _attrs(ds))))
    elif op == "revert":
        if not ds.is_scaled():
            raise Refusal()
        ds.revert_scaling()
        if ds.is_scaled() or _attrs(ds)[1:] != (None, None, None, None):
            issues.append(("revert_clears_attributes", "attributes after revert %r" % (_attrs(ds),)))
        if model.get("valid"):
            o = model["orig"]
            got = _ms(ds)
            if len(got) != len(o) or any(a[1] != b[1] or any(not (abs(x - y) <= 1e-8 * max(1.0, abs(y))) for x, y in zip(a[0], b[0])) for a, b in zip(got, o)):
                issues.append(("revert_restores_original", "after revert %r, before the first scaling %r" % (got, o)))
        model["valid"] = False
    elif op in ("shuffle_rev", "shuffle_rot"):
        PERM[0] = None if op == "shuffle_rev" else ([(i + 1) % n for i in range(n)] if n else None)
        if n == 0:
            raise Refusal()
        pairs_before = [(tuple(np.atleast_1d(x)), int(l)) for x, l in zip(ds.get_data()[0], ds.get_data()[1])]
        ds.shuffle()
        pairs = [(tuple(np.atleast_1d(x)), int(l)) for x, l in zip(ds.get_data()[0], ds.get_data()[1])]
        perm = list(reversed(range(n))) if PERM[0] is None else PERM[0]
        if pairs != [pairs_before[i] for i in perm]:
            issues.append(("shuffle_applies_permutation", "pairs %r, expected permutation %r of %r" % (pairs, perm, pairs_before)))
        if _attrs(ds) != battr:
            issues.append(("attributes_carried", "shuffle changed scaling attributes %r -> %r" % (battr, _attrs(ds))))
    elif op == "mbf":
        if n == 0:
            raise Refusal()
        ds.move_boundaries_to_front()
        if _ms(ds) != before:
            issues.append(("multiset_preserved", "move_boundaries_to_front: %r -> %r" % (before, _ms(ds))))
        if _attrs(ds) != battr:
            issues.append(("attributes_carried", "move_boundaries_to_front changed attributes"))
    elif op == "split_labels_cat":
        parts = ds.split_labels()
        for p in parts:
            if _attrs(p) != battr:
                issues.append(("attributes_carried", "split_labels piece has %r, parent %r" % (_attrs(p), battr)))
            if len(set(int(l) for l in p.get_data()[1])) > 1:
                issues.append(("split_labels_single_label", "piece with labels %r" % (set(p.get_data()[1]),)))
        if sorted(sum((_ms(p) for p in parts), [])) != before:
            issues.append(("multiset_preserved", "split_labels pieces %r, parent %r" % ([_ms(p) for p in parts], before)))
        ds2 = DataSet.list_concatenate(parts)
        if _ms(ds2) != before:
            issues.append(("multiset_preserved", "list_concatenate(split_labels): %r -> %r" % (before, _ms(ds2))))
        if n and _attrs(ds2) != battr:
            issues.append(("attributes_carried", "list_concatenate result has %r, parent %r" % (_attrs(ds2), battr)))
        ds = ds2
    elif op.startswith("split_pieces"):
        p = {"split_pieces.5_cat": 0.5, "split_pieces0_cat": 0.0, "split_pieces1_cat": 1.0}[op]
        a, b = ds.split_pieces(p)
        if _attrs(a) != battr or _attrs(b) != battr:
            issues.append(("attributes_carried", "split_pieces pieces %r %r, parent %r" % (_attrs(a), _attrs(b), battr)))
        if sorted(_ms(a) + _ms(b)) != before:
            issues.append(("multiset_preserved", "split_pieces(%r): %r + %r, parent %r" % (p, _ms(a), _ms(b), before)))
        if a.get_length() + b.get_length() != n:
            issues.append(("split_sizes", "%d + %d != %d" % (a.get_length(), b.get_length(), n)))
        ds2 = a.concatenate(b)
        if _ms(ds2) != before:
            issues.append(("multiset_preserved", "concatenate(split_pieces): %r -> %r" % (before, _ms(ds2))))
        ds = ds2
    elif op == "split_nolabel_cat":
        a, b = ds.split_without_labels()
        if _attrs(a) != battr or _attrs(b) != battr:
            issues.append(("attributes_carried", "split_without_labels pieces %r %r, parent %r" % (_attrs(a), _attrs(b), battr)))
        if any(l != -1 for _, l in _ms(a)) or any(l < 0 for _, l in _ms(b)):
            issues.append(("split_without_labels_separates", "labelless %r, labelled %r" % (_ms(a), _ms(b))))
        if sorted(_ms(a) + _ms(b)) != before:
            issues.append(("multiset_preserved", "split_without_labels: %r + %r, parent %r" % (_ms(a), _ms(b), before)))
        ds2 = b.concatenate(a)
        if _ms(ds2) != before:
            issues.append(("multiset_preserved", "concatenate(split_without_labels): %r -> %r" % (before, _ms(ds2))))
        ds = ds2
    elif op in ("rm0", "rm_dup", "rm_oor", "rm_neg"):
        idx = {"rm0": [0], "rm_dup": [0, 0], "rm_oor": [n], "rm_neg": [-1]}[op]
        if op in ("rm0", "rm_dup") and n == 0:
            idx = [0]
            op = "rm_oor"
        try:
            rem = ds.remove_samples(idx)
            if op in ("rm_oor", "rm_neg"):
                issues.append(("out_of_range_removal_rejected", "remove_samples(%r) on %d samples accepted" % (idx, n)))
            else:
                if op == "rm0" and sorted(_ms(ds) + _ms(rem)) != before:
                    issues.append(("multiset_preserved", "remove_samples([0]): kept %r + removed %r, before %r" % (_ms(ds), _ms(rem), before)))
                if _attrs(ds) != battr or (_attrs(rem) != battr):
                    issues.append(("attributes_carried", "remove_samples: kept %r removed %r, before %r" % (_attrs(ds), _attrs(rem), battr)))
                model["valid"] = False
        except (ValueError, IndexError):
            # any exception is a rejection (index n is refused by numpy's IndexError rather than the library's ValueError)
            if op in ("rm_oor", "rm_neg"):
                if _ms(ds) != before or _attrs(ds) != battr:
                    issues.append(("out_of_range_removal_leaves_data", "data modified by a rejected removal"))
            else:
                raise
    elif op.startswith("derived_"):
        _, how, act = op.split("_", 2)
        if n == 0:
            raise Refusal()
        o = ds.copy() if how == "copy" else next((p for p in ds.split_labels() if not p.is_empty()), None)
        if o is None:
            raise Refusal()
        if act == "sf2":
            o.scale_factor(2.0)
        elif act == "sfvec":
            o.scale_factor(np.array([2.0, 0.5][:dim]))
        elif act == "sr":
            o.scale_range((-1.0, 2.0))
        else:
            if not o.is_scaled():
                raise Refusal()
            o.revert_scaling()
        if _ms(ds) != before:
            issues.append(("derived_object_independent", "%s on a %s changed the samples of the data set: %r -> %r" % (act, how, before, _ms(ds))))
        if _attrs(ds) != battr:
            issues.append(("derived_object_independent", "%s on a %s changed the scaling attributes of the data set: %r -> %r" % (act, how, battr, _attrs(ds))))
    elif op == "cat_diff_scaled":
        if n == 0:
            raise Refusal()
        other = DataSet((ds.get_data()[0].copy() + 1.0, ds.get_data()[1].copy()))
        if not ds.is_scaled():
            other.scale_range((0.0, 1.0))
            what = "unscaled + scaled to (0,1)"
        else:
            other.scale_range((-3.0, 7.0))
            what = "scaled %r + scaled to (-3,7)" % (battr[1],)
        try:
            ds.concatenate(other)
            issues.append(("different_scaling_refused", "concatenate(%s) was accepted" % what))
        except ValueError:
            pass
        if _ms(ds) != before or _attrs(ds) != battr:
            issues.append(("refused_concatenate_leaves_data", "data modified"))
    return ds, issues


def _dfs(name, ds, model, seq, depth, fails, seen, counter, ops=None):
    if len(seq) >= depth:
        return
    for op in (ops or OPS):
        ds2, model2 = copy.deepcopy(ds), copy.deepcopy(model)
        counter[0] += 1
        seq2 = seq + [op]
        try:
            ds2, issues = _apply(ds2, op, model2)
        except Refusal:
            continue
        except Exception as e:
            degenerate = ds.is_empty()
            if degenerate:
                continue          # an exception on an empty set is a refusal of a degenerate input, not a verdict
            issues = [("exception", "%s: %s" % (type(e).__name__, str(e)[:120]))]
            key = {"op": op.split("_cat")[0], "type": type(e).__name__, "dim1": ds.get_dim() == 1}
            sig = ("exception", op, type(e).__name__, ds.get_dim() == 1)
            if sig not in seen:
                seen.add(sig)
                f = fail("exception", "init %s, sequence %r: %s" % (name, seq2, issues[0][1]), key)
                f["case"] = {"config": {"init": name, "prefix": seq2, "depth": len(seq2)}}
                fails.append(f)
            continue
        for it in issues:
            oracle, detail, extra = it[0], it[1], (it[2] if len(it) > 2 else {})
            key = dict({"op": op.split("_cat")[0]}, **extra)
            sig = (oracle, op, tuple(sorted(extra.items())))
            if sig not in seen:
                seen.add(sig)
                f = fail(oracle, "init %s, sequence %r: %s" % (name, seq2, detail), key)
                f["case"] = {"config": {"init": name, "prefix": seq2, "depth": len(seq2)}}
                fails.append(f)
        _dfs(name, ds2, model2, seq2, depth, fails, seen, counter, ops)


def run_case(case):
    from sparseSpACE.DEMachineLearning import DataSet
    _install_shuffle()
    c = case["config"]
    X, y = INITS[c["init"]]
    ds = DataSet((X.copy(), y.copy()))
    model = {"orig": None, "valid": False}
    fails, seen, counter = [], set(), [0]
    # replay the prefix (its own issues are reported by the case that enumerates it, except for the last step)
    for i, op in enumerate(c["prefix"]):
        last = i == len(c["prefix"]) - 1
        try:
            ds, issues = _apply(ds, op, model)
        except Refusal:
            return {"failures": [], "canon": core.config_key(c), "outcome": ("refused",), "nontrivial": False, "evals": 1}
        except Exception as e:
            if not last or INITS[c["init"]][0].size == 0:
                return {"failures": [], "canon": core.config_key(c), "outcome": ("exception_in_prefix",), "nontrivial": False, "evals": 1}
            issues = [("exception", "%s: %s" % (type(e).__name__, str(e)[:120]))]
            return {"failures": [fail("exception", "init %s, sequence %r: %s" % (c["init"], c["prefix"], issues[0][1]),
                                      {"op": op.split("_cat")[0], "type": type(e).__name__, "dim1": INITS[c["init"]][0].ndim == 2 and INITS[c["init"]][0].shape[1] == 1})],
                    "canon": core.config_key(c), "outcome": ("exception",), "nontrivial": True, "evals": 1}
        if last:
            for it in issues:
                oracle, detail, extra = it[0], it[1], (it[2] if len(it) > 2 else {})
                fails.append(fail(oracle, "init %s, sequence %r: %s" % (c["init"], c["prefix"], detail), dict({"op": op.split("_cat")[0]}, **extra)))
                seen.add((oracle, op, tuple(sorted(extra.items()))))
    _dfs(c["init"], ds, model, list(c["prefix"]), c["depth"], fails, seen, counter, c.get("ops"))
    return {"failures": fails, "canon": core.config_key(c), "outcome": (counter[0], len(fails), tuple(_ms(ds))[:2]), "nontrivial": True,
            "evals": counter[0] + 1}


# the state-changing core of the alphabet, explored one level deeper in the thorough tier (35^5 sequences per initial set are out of reach)
CORE = ["sr01", "sr-12", "sr01_override", "sf2", "sf_vec_neg", "shift.5", "revert", "shuffle_rot", "mbf", "split_labels_cat",
        "split_pieces.5_cat", "rm0", "derived_copy_sf2", "derived_split_revert", "sf_badlen"]


def cases(tier):
    out = []
    for name in INITS:
        for a in OPS:
            for b in OPS:
                out.append({"config": {"init": name, "prefix": [a, b], "depth": 4}})
    if tier != "quick":
        for name in INITS:
            for a in CORE:
                for b in CORE:
                    out.append({"config": {"init": name, "prefix": [a, b], "depth": 5, "ops": CORE}})
    return out


def main(ctx):
    _install_shuffle()
    cs = cases(ctx.tier)
    ctx.determinism_probe({"config": {"init": "ties", "prefix": ["sr01", "shuffle_rot", "split_pieces.5_cat"], "depth": 3}})
    results = ctx.map(cs, chunksize=1)
    total = 0
    for case, res in zip(cs, results):
        ctx.absorb(case, res, group=case["config"]["init"])
        total += res["evals"]
    ctx.add_sample({"init": "ties", "sequence": ["sr01", "shift.5", "sf2", "sr-12", "revert"]})
    ctx.add_sample({"init": "d1", "sequence": ["sf2", "split_labels_cat"]})
    ctx.add_sample({"init": "two", "sequence": ["sr01", "cat_diff_scaled"]})
    ctx.bounds = {"depth": 4, "depth_core_alphabet": None if ctx.tier == "quick" else 5, "core_alphabet": CORE, "alphabet": OPS, "initial_sets": sorted(INITS), "sequences_executed": total}
    return ctx.finish(
        rule="every operation sequence up to the stated depth over the 35-operation alphabet on 7 initial data sets (one case = all "
             "completions of a prefix; evaluations = executed operations), lock-step with the reference model after every step",
        assumptions=["second revert model (affine maps composed per dimension): every surviving sample must return to its reference position whatever was removed or split off in between; known finding when the set no longer contains the original minimum", "multiset form of revert-restores-original is only demanded while no sample was removed since the first scaling (the statement lists "
                     "scalings, shifts and factors 'in between')", "an exception on an EMPTY set counts as refusal of a degenerate input",
                     "shuffle permutation chosen by the explorer (reverse and rotation); np.random is not reachable",
                     "attribute propagation compared field by field (range, factor, original min/max, scaled flag)"])
