"""C07 - extend-split areas tile the domain and each carries a valid local combination.

BFS over refinement-decision histories of the real SpatiallyAdaptiveExtendScheme (which areas are refined, extend
or split in automatic mode, split dimensions in single-dimension mode).  In every reached state: leaves are boxes
inside the domain with pairwise disjoint interiors and volumes summing to the domain volume; coarsening values
>= 0; every point of a lattice (incl. points on shared faces/corners) is assigned to exactly one leaf that
contains it; per leaf the coefficients of the computed component grids sum to 1 at every point of those grids;
the combined interpolant reproduces all nodal unit functions at the leaf grid points assigned to that leaf.
"""
import itertools

import numpy as np

from mc import core, es
from mc.core import fail

PID = "C07"


def _f(x):
    return [np.sin(3 * x[0] + 1) * np.exp(x[-1])]


def tiling_failures(sa, key):
    out = []
    objs = sa.refinement.get_objects()
    d = sa.dim
    a, b = np.array(sa.a, dtype=float), np.array(sa.b, dtype=float)
    vol = 0.0
    for o in objs:
        s, e = np.array(o.start, dtype=float), np.array(o.end, dtype=float)
        if len(s) != d or len(e) != d or not np.all(s < e):
            out.append(fail("leaf_not_a_box", "leaf %r %r" % (o.start, o.end), key))
        if np.any(s < a) or np.any(e > b):
            out.append(fail("leaf_outside_domain", "leaf %r %r" % (o.start, o.end), key))
        vol += float(np.prod(e - s))
        if o.coarseningValue < 0:
            out.append(fail("coarsening_negative", "leaf %r %r coarsening %r" % (o.start, o.end, o.coarseningValue), key))
    for i, o in enumerate(objs):
        for p in objs[i + 1:]:
            if all(min(o.end[k], p.end[k]) - max(o.start[k], p.start[k]) > 0 for k in range(d)):
                out.append(fail("leaves_overlap", "%r-%r and %r-%r" % (list(o.start), list(o.end), list(p.start), list(p.end)), key))
    if not (abs(vol - float(np.prod(b - a))) <= 1e-12 * float(np.prod(b - a))):
        out.append(fail("volume_sum", "leaf volumes sum to %r, domain %r" % (vol, float(np.prod(b - a))), key))
    return out


def assignment_failures(sa, key):
    """every lattice point (incl. all leaf corners => points on shared faces) is assigned to exactly one containing leaf"""
    out = []
    objs = sa.refinement.get_objects()
    d = sa.dim
    coords = []
    for k in range(d):
        c = set()
        for o in objs:
            c.add(float(o.start[k]))
            c.add(float(o.end[k]))
        cs = sorted(c)
        mids = [(x + y) / 2 for x, y in zip(cs[:-1], cs[1:])]
        coords.append(sorted(set(cs + mids + [cs[0] + (cs[-1] - cs[0]) / 3])))
    pts = list(itertools.product(*coords))
    assign = sa.get_points_assignement_to_areas(pts)
    count = {}
    leafset = {id(o) for o in objs}
    for area, contained in assign:
        if id(area) not in leafset:
            out.append(fail("assignment_to_non_leaf", "points assigned to %r-%r which is not a current leaf" % (list(area.start), list(area.end)), key))
        for p in contained:
            p = tuple(float(x) for x in p)
            count[p] = count.get(p, 0) + 1
            if not all(area.start[k] <= p[k] <= area.end[k] for k in range(d)):
                out.append(fail("assignment_not_containing", "point %r assigned to %r-%r" % (p, list(area.start), list(area.end)), key))
    bad = [p for p in pts if count.get(tuple(p), 0) != 1]
    if bad:
        out.append(fail("assignment_exactly_one", "%d lattice points assigned %s times, e.g. %r" % (len(bad), [count.get(tuple(p), 0) for p in bad[:3]], bad[:3]), key))
    return out, len(pts)


def local_combination_failures(sa, op, key, tol=1e-11, unchanged=()):
    from sparseSpACE.Function import CustomFunction
    out = []
    objs = sa.refinement.get_objects()
    allpts = {}
    per_leaf = []
    for o in objs:
        cnt = {}
        for c in sa.scheme:
            lv, do = sa.coarsen_grid(c.levelvector, o)
            if do:
                sa.grid.setCurrentArea(o.start, o.end, lv)
                for p in sa.grid.getPoints():
                    p = tuple(float(x) for x in p)
                    cnt[p] = cnt.get(p, 0) + c.coefficient
        bad = {p: v for p, v in cnt.items() if v != 1}
        if bad:
            out.append(fail("local_coefficient_sum", "leaf %r-%r coarsening %r: %r" % (list(o.start), list(o.end), o.coarseningValue, sorted(bad.items())[:4]), key))
        if not cnt:
            out.append(fail("leaf_without_computed_grid", "leaf %r-%r has no computed component grid" % (list(o.start), list(o.end)), key))
        per_leaf.append((o, sorted(cnt)))
        for p in cnt:
            allpts.setdefault(p, len(allpts))
    # unit-function swap, leaf by leaf: the nodal unit functions of the leaf's own grid points, evaluated at those
    # of its grid points that the library assigns to this leaf, must give the identity
    pts = sorted(allpts)
    n = len(pts)
    assign = sa.get_points_assignement_to_areas(pts)
    assigned = {}
    for area, contained in assign:
        for p in contained:
            assigned.setdefault(id(area), set()).add(tuple(float(x) for x in p))
    old = op.f
    checked = 0
    try:
        for o, own in per_leaf:
            mine = [p for p in own if p in assigned.get(id(o), ())]
            if not mine or es._key(o) in unchanged:
                continue
            index = {p: i for i, p in enumerate(own)}
            m = len(own)

            def unit(x, index=index, m=m):
                v = [0.0] * m
                i = index.get(tuple(float(xx) for xx in x))
                if i is not None:
                    v[i] = 1.0
                return v
            op.f = CustomFunction(unit, output_length=m)
            got = np.asarray(sa(mine))
            want = np.zeros((len(mine), m))
            for r_, p in enumerate(mine):
                want[r_, index[p]] = 1.0
            checked += len(mine)
            err = np.abs(got - want)
            if not np.max(err) <= tol:
                i, j = np.unravel_index(int(np.argmax(err)), err.shape)
                out.append(fail("local_reproduction", "at %r (leaf %r-%r): unit function of %r evaluates to %r"
                                % (mine[i], list(o.start), list(o.end), own[j], got[i, j]), key))
    finally:
        op.f = old
    return out, n, checked


def run_case(case):
    config, history = case["config"], case["history"]
    # the known finding (coarsening versions 1 and 2 started with lmin >= 2) is keyed narrowly; everything else has this flag False
    key = {"versions_1_2_with_lmin_ge_2": bool(config["version"] in (1, 2) and config["lmin"] >= 2)}
    # interrupted runs: the same history, stopped after k steps and continued (both documented ways); k = middle and k = all steps
    # (the continuation then only re-evaluates).  A continuation through refinement_container re-evaluates EVERY area, so no leaf
    # may be skipped as "unchanged since the predecessor state" there.
    resumes = [None]
    if config.get("resume") and len(history) >= 1:
        resumes = [(k, config["resume"]) for k in sorted({len(history) // 2, len(history)})]
    fails = []
    for resume in resumes:
        r = es.build(config, history, _f, 1, resume=resume)
        sa, op = r.sa, r.op
        kk = key if resume is None else dict(key, resumed=config["resume"])
        fails += tiling_failures(sa, kk)
        f2, npts = assignment_failures(sa, kk)
        fails += f2
        # leaves that already existed before the last step with an unchanged scheme were checked in the predecessor state
        unchanged = set()
        if (resume is None or resume[1] == "continue") and r.snaps and r.snaps[-1][2] == tuple(int(x) for x in sa.lmax):
            unchanged = {(l[0], l[1]) for l in r.snaps[-1][0]} & {(l[0], l[1]) for l in r.snaps[-1][1] if l in r.snaps[-1][0]}
        f3, n, checked = local_combination_failures(sa, op, kk, unchanged=unchanged)
        fails += f3
    res = {"failures": fails, "canon": es.canon(sa), "nontrivial": len(history) > 0,
           "outcome": (len(sa.refinement.get_objects()), n, tuple(sa.lmax))}
    if case.get("want_events", False):
        res["events"] = es.events(sa, config)
    return res


def configs(tier):
    out = []

    def add(d, lmax, version, nref, D, s, automatic=False, single=False, towards=None, lmin=1, resume=None, a=None, b=None):
        c = {"d": d, "lmin": lmin, "lmax": lmax, "version": version, "nref": nref, "automatic": automatic,
             "single_dim": single, "s": s, "special": d < 3 or tier != "quick"}
        if a is not None:
            c["a"], c["b"] = a, b
        if towards:
            c["towards"] = towards
        if resume:
            c["resume"] = resume
        out.append((c, D))
    T2 = [[0.3, 0.3], [0.8, 0.8]]
    T3 = [[0.3, 0.3, 0.3], [0.8, 0.8, 0.8]]
    if tier == "quick":
        for version in (0, 1, 2):
            add(2, 2, version, 1, 3, 1)
            add(2, 2, version, 2, 2, 2)
        add(2, 3, 0, 1, 2, 1)
        add(2, 2, 0, 3, 2, 1)
        add(3, 2, 0, 1, 2, 1)
        add(2, 2, 0, 1, 2, 1, automatic=True)
        add(2, 2, 0, 1, 2, 1, single=True)
        add(2, 2, 0, 1, 2, 1, automatic=True, single=True)
        add(3, 2, 0, 1, 2, 1, automatic=True)          # automatic mode in three dimensions
        add(3, 2, 0, 2, 3, 1, automatic=True, towards=T3)
        # graded refinement towards two points: few events per state, so coarsening values >= 2 and several scheme extensions
        for version in (0, 1, 2):
            add(2, 2, version, 1, 5, 1, towards=T2)
            add(2, 2, version, 2, 5, 1, towards=T2)
        add(3, 2, 2, 1, 3, 1, towards=T3)
        # coarsening version 1 in three dimensions, started at lmax = 3 and graded towards one point (lmax 4 with areas lagging by one)
        add(3, 3, 1, 1, 3, 1, towards=[[0.3, 0.3, 0.3]])
        # interrupted and continued runs (continue_adaptive_refinement / performSpatiallyAdaptiv(refinement_container=...))
        for how in ("continue", "container"):
            add(2, 2, 0, 1, 5, 1, towards=T2, resume=how)
            add(2, 2, 2, 1, 4, 1, towards=T2, resume=how)
            add(2, 2, 0, 1, 2, 1, resume=how)
        # a domain far from the origin in one dimension
        add(2, 2, 0, 1, 3, 1, a=[1048576.0, -1.0], b=[1048577.0, 3.0], towards=[[1048576.3, 0.2], [1048576.8, 2.2]])
        # start levels lmin >= 2
        for version in (0, 1, 2):
            add(2, 3, version, 1, 2, 1, lmin=2)
        add(2, 4, 0, 1, 1, 1, lmin=3)
        # runs that start with lmax == lmin (every area begins at the coarsest possible local scheme)
        for version in (0, 1, 2):
            add(2, 1, version, 1, 4, 1, lmin=1, towards=T2)
        add(2, 1, 0, 1, 2, 1, lmin=1)
        add(2, 2, 0, 1, 3, 1, lmin=2, towards=T2)
        add(3, 1, 0, 1, 2, 1, lmin=1, towards=T3)
    else:
        for version in (0, 1, 2):
            add(2, 1, version, 1, 6, 1, lmin=1, towards=T2)
            add(2, 1, version, 2, 3, 1, lmin=1)
            add(2, 2, version, 1, 4, 1, lmin=2, towards=T2)
        add(3, 1, 0, 1, 3, 1, lmin=1, towards=T3)
        for version in (0, 1, 2):
            add(2, 3, version, 1, 3, 1, lmin=2)
            add(2, 4, version, 1, 2, 1, lmin=2)
            add(2, 4, version, 2, 2, 1, lmin=3)
            add(3, 3, version, 1, 2, 1, lmin=2)
            add(2, 3, version, 1, 4, 1, lmin=2, towards=T2)
        for version in (0, 1, 2):
            for nref in (1, 2, 3):
                add(2, 2, version, nref, 7, 1, towards=T2 + [[0.8, 0.3]])
                add(2, 3, version, nref, 5, 1, towards=T2)
            add(3, 2, version, 1, 5, 1, towards=T3)
            add(2, 2, version, 1, 4, 1)
        for version in (0, 1, 2):
            for nref in (1, 2, 3):
                add(2, 2, version, nref, 3, 2)
                add(2, 3, version, nref, 3, 1)
            add(3, 2, version, 1, 2, 1)
            add(3, 2, version, 2, 2, 1)
            add(2, 2, version, 1, 3, 1, automatic=True)
            add(2, 2, version, 1, 3, 1, single=True)
            add(2, 2, version, 1, 2, 1, automatic=True, single=True)
        add(2, 2, 0, 1, 4, 1)
        add(3, 3, 0, 1, 2, 1)
        add(3, 2, 0, 1, 2, 1, automatic=True)
        add(3, 2, 0, 1, 2, 1, single=True)
    return out


def main(ctx):
    ctx.determinism_probe({"config": {"d": 2, "lmin": 1, "lmax": 2, "version": 0, "nref": 1, "automatic": False,
                                      "single_dim": False, "s": 1},
                           "history": [[[[0.0, 0.0], [0.5, 0.5], None]], [[[0.0, 0.0], [0.25, 0.25], None]], [[[0.0, 0.0], [0.25, 0.25], None]]]})
    for config, D in configs(ctx.tier):
        tag = "d%d_l%d%d_v%d_nref%d_auto%d_single%d_D%d_s%d%s" % (config["d"], config["lmin"], config["lmax"], config["version"], config["nref"],
                                                                config["automatic"], config["single_dim"], D, config["s"],
                                                                ("_towards" if config.get("towards") else "") + ("_resume_" + config["resume"] if config.get("resume") else "") + ("_far" if config.get("a") else ""))
        ctx.bounds[tag] = core.bfs(ctx, config, D, tag=tag)
    return ctx.finish(
        rule="state = sorted leaf areas (start,end,coarsening,splits so far) + lmax reached by a history of decisions: which leaf "
             "areas are refined (all subsets of size <= s, plus 'all'), extend-or-split per refined area in automatic mode, the set "
             "of split dimensions in single-dimension mode; non-trivial = state reached by >= 1 refinement",
        assumptions=["domain [0,1]^d, TrapezoidalGrid with boundary, Integration; d<=3; bounds per configuration in bounds_completed",
                     "automatic/single-dim decisions overwrite the benefit / twin-error fields after the real computation ran"])
