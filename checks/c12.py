"""C12 - function evaluation is cache-transparent and matches its analytic integral.

(a) histories: ALL operation sequences up to depth D over the alphabet {single p1, single p2 (list), single p1 as
ndarray, batch [p1,p2], batch [p2,p2,p3], batch [], batch as ndarray, eval_vectorized, reset_dictionary,
deactivate_caching, get_f_dict_size} on real Function objects, with colliding points, compared after every step with a
reference model (the pure scalar eval + a set of points).
(b) lattice: every built-in class that offers an analytic integral x parameter choices x d in {1,2,3} x every box with
corners in {0,1/4,1/2,1}^d (plus boxes off the unit cube where the class allows): analytic integral == composite tensor
Gauss-Legendre quadrature of the scalar eval, cells split at the known kinks / discontinuities.
"""
import itertools
import math

import numpy as np
from numpy.polynomial.legendre import leggauss

from mc import core
from mc.core import fail

PID = "C12"
SEED = 0


def set_seed(s):
    global SEED
    SEED = s


# ------------------------------------------------------------------ (a) operation sequences
def _functions_a(name):
    from sparseSpACE import Function as F
    if name == "linear":
        return F.FunctionLinear([1.5, -2.0]), 2
    if name == "cornerpeak":
        return F.GenzCornerPeak([1.0, 2.0]), 2
    if name == "discont":
        return F.GenzDiscontinious([1.0, 2.0], [0.5, 0.5]), 2
    if name == "c0":
        return F.GenzC0([2.0, 3.0], [0.25, 0.5]), 2
    if name == "expvar":
        return F.FunctionExpVar(), 2
    if name == "polynomial":
        return F.FunctionPolynomial([1.0, 2.0], degree=3), 2
    if name == "discont2_vector":
        return F.GenzDiscontinious2([1.0, 2.0], [0.5, 0.5]), 2
    if name == "custom_vector":
        return F.CustomFunction(lambda x: [math.sin(3 * x[0] + SEED) + x[1], x[0] * x[1], 2.0], output_length=3), 2
    if name == "constant":
        return F.ConstantValue(3.0), 2
    if name == "gaussian":
        return F.GenzGaussian([0.3, 0.6], [5.0, 3.0]), 2
    if name == "oscillatory":
        return F.GenzOszillatory([3.0, 1.0], 0.25), 2
    if name == "productpeak":
        return F.GenzProductPeak([2.0, 3.0], [0.25, 0.5]), 2
    raise ValueError(name)


FUNCS_A = ["linear", "cornerpeak", "discont", "c0", "expvar", "polynomial", "discont2_vector", "custom_vector", "constant",
           "gaussian", "oscillatory", "productpeak"]
# points collide; p2 sits exactly on the discontinuity / kink of several functions
P1, P2, P3 = (0.25, 0.75), (0.5, 0.5), (0.125, 0.5)
# refused_*: a request the function refuses (a point of the wrong dimension): the caller catches the exception; no evaluation took place,
# so cache and counter must be what they were
OPS = ["single_p1", "single_p2_list", "single_p1_array", "batch_p1_p2", "batch_p2_p2_p3", "batch_empty", "batch_array_p3_p1",
       "vectorized_p1_p3", "reset", "deactivate", "size", "refused_single", "refused_batch"]


def _apply(f, op, model, out_len, ref_eval):
    """apply one operation to the real object and to the model; return list of (oracle, detail)"""
    bad = []

    def consume(arr):
        """the returned array belongs to the caller, who may go on computing with it in place (e.g. `values *= weights`): the harness
        overwrites every returned array after it has been compared - a later evaluation must not be affected"""
        if isinstance(arr, np.ndarray) and arr.flags.writeable and arr.size:
            arr *= 0.0
            arr -= 7.0

    def expect_rows(got_raw, pts):
        got = np.array(got_raw)
        consume(got_raw)
        if got.shape != (len(pts), out_len):
            bad.append(("batch_shape", "%s returned shape %r, expected %r" % (op, got.shape, (len(pts), out_len))))
            return
        want = np.array([ref_eval(p) for p in pts]).reshape(len(pts), out_len)
        if not np.allclose(got, want, rtol=1e-13, atol=1e-15):
            bad.append(("batch_values", "%s returned %r, scalar eval gives %r" % (op, got.tolist(), want.tolist())))

    def expect_single(got_raw, p):
        got = np.array(got_raw)
        consume(got_raw)
        if got.shape != (out_len,):
            bad.append(("single_shape", "%s returned shape %r, expected %r" % (op, got.shape, (out_len,))))
            return
        want = np.asarray(ref_eval(p)).reshape(out_len)
        if not np.allclose(got, want, rtol=1e-13, atol=1e-15):
            bad.append(("single_values", "%s returned %r, scalar eval gives %r" % (op, got.tolist(), want.tolist())))
    if op == "single_p1":
        expect_single(f(P1), P1)
        model["pts"].add(P1)
    elif op == "single_p2_list":
        expect_single(f(list(P2)), P2)
        model["pts"].add(P2)
    elif op == "single_p1_array":
        expect_single(f(np.array(P1)), P1)
        model["pts"].add(P1)
    elif op == "batch_p1_p2":
        expect_rows(f([P1, P2]), [P1, P2])
        model["pts"].update([P1, P2])
    elif op == "batch_p2_p2_p3":
        expect_rows(f([P2, P2, P3]), [P2, P2, P3])
        model["pts"].update([P2, P3])
    elif op == "batch_empty":
        expect_rows(f([]), [])
    elif op == "batch_array_p3_p1":
        expect_rows(f(np.array([P3, P1])), [P3, P1])
        model["pts"].update([P3, P1])
    elif op == "vectorized_p1_p3":
        got = np.asarray(f.eval_vectorized(np.array([P1, P3])))
        if got.size != 2 * out_len:
            bad.append(("vectorized_shape", "eval_vectorized returned shape %r for 2 points, output length %d" % (got.shape, out_len)))
        else:
            want = np.array([ref_eval(p) for p in (P1, P3)]).reshape(2, out_len)
            if not np.allclose(got.reshape(2, out_len), want, rtol=1e-13, atol=1e-15):
                bad.append(("vectorized_values", "eval_vectorized %r, scalar eval %r" % (got.tolist(), want.tolist())))
    elif op == "refused_single":
        try:
            f((0.25,))
            model["pts"].add((0.25,))            # accepted after all (a function that ignores missing coordinates): it counts
        except Exception:
            pass
    elif op == "refused_batch":
        try:
            f([P1, (0.125,)])
            model["pts"].update([P1, (0.125,)])
        except Exception:
            pass
    elif op == "reset":
        f.reset_dictionary()
        model["pts"] = set()
        model["counted_when_deactivated"] = 0
    elif op == "deactivate":
        f.deactivate_caching()
        if model["cache"]:
            model["counted_when_deactivated"] = len(model["pts"])     # switching the cache off is not a reset
        model["cache"] = False
    elif op == "size":
        n = f.get_f_dict_size()
        if model["cache"] and n != len(model["pts"]):
            bad.append(("evaluation_counter", "get_f_dict_size() = %r, distinct points evaluated since the last reset = %d" % (n, len(model["pts"]))))
        if not model["cache"] and not (model.get("counted_when_deactivated", 0) <= n <= len(model["pts"])):
            # with caching off the library counts batch evaluations only (accepted): the counter then lies between what had been counted
            # when the cache was switched off and the number of distinct points evaluated since the last reset
            bad.append(("evaluation_counter", "caching off: get_f_dict_size() = %r, counted when the cache was switched off %d, distinct points since the last reset %d"
                        % (n, model.get("counted_when_deactivated", 0), len(model["pts"]))))
    return bad


def _run_sequence(name, seq):
    f, d = _functions_a(name)
    ref, _ = _functions_a(name)          # a second object: the reference is its pure scalar eval (never cached)
    out_len = f.output_length()
    model = {"pts": set(), "cache": True}
    for i, op in enumerate(seq):
        try:
            bad = _apply(f, op, model, out_len, lambda p: ref.eval(p))
        except Exception as e:
            bad = [("exception", "%s raised %s: %s" % (op, type(e).__name__, e))]
            return i, op, bad
        if bad:
            return i, op, bad
    # counter at the end of every sequence
    if model["cache"] and f.get_f_dict_size() != len(model["pts"]):
        return len(seq), "size", [("evaluation_counter", "get_f_dict_size() = %r, model %d" % (f.get_f_dict_size(), len(model["pts"])))]
    return None


def _seq_case(c):
    name, prefix, depth = c["function"], c["prefix"], c["depth"]
    fails = []
    n = 0
    seen_sig = set()
    for tail in itertools.product(OPS, repeat=depth - len(prefix)):
        seq = list(prefix) + list(tail)
        n += 1
        r = _run_sequence(name, seq)
        if r is not None:
            i, op, bad = r
            for oracle, detail in bad:
                ex_type = detail.split(" raised ")[1].split(":")[0] if oracle == "exception" else ""
                after_deactivate = "deactivate" in seq[:i]
                key = {"op": op, "after_deactivate": after_deactivate}
                if ex_type:
                    key["type"] = ex_type
                sig = (oracle, op, after_deactivate, ex_type)
                if sig in seen_sig:
                    continue
                seen_sig.add(sig)
                fl = fail("seq_" + oracle, "function %s, sequence %r, step %d: %s" % (name, seq[:i + 1], i, detail), key)
                fl["case"] = {"config": {"kind": "seq", "function": name, "prefix": seq[:i + 1], "depth": i + 1}}
                fails.append(fl)
    return fails, n


# ------------------------------------------------------------------ (b) analytic integrals
def _gauss(evalfn, start, end, breaks, n, out_len, power=None):
    """composite tensor Gauss-Legendre of evalfn over [start,end], each dimension split at `breaks[d]`.
    power: substitute x = t^power per dimension (integrand with an algebraic singularity of its derivative at 0)."""
    d = len(start)
    X, W = leggauss(n)
    nodes, weights = [], []
    for k in range(d):
        s, e = float(start[k]), float(end[k])
        if power:
            s, e = s ** (1.0 / power), e ** (1.0 / power)
        cuts = sorted({s, e} | {float(b if not power else b ** (1.0 / power)) for b in breaks[k] if s < (b if not power else b ** (1.0 / power)) < e})
        xs, ws = [], []
        for lo, hi in zip(cuts[:-1], cuts[1:]):
            t = lo + (X + 1) * (hi - lo) / 2
            w = W * (hi - lo) / 2
            if power:
                xs.extend(t ** power)
                ws.extend(w * power * t ** (power - 1))
            else:
                xs.extend(t)
                ws.extend(w)
        nodes.append(xs)
        weights.append(ws)
    tot = np.zeros(out_len)
    for idx in itertools.product(*[range(len(x)) for x in nodes]):
        p = tuple(nodes[k][i] for k, i in enumerate(idx))
        w = 1.0
        for k, i in enumerate(idx):
            w *= weights[k][i]
        tot += w * np.asarray(evalfn(p), dtype=float).reshape(out_len)
    return tot


def _simplex_volume(start, end):
    """exact measure of {x in box : sum x < 1} by nested 1D integration of the clipped inner length (d<=3)"""
    d = len(start)
    X, W = leggauss(12)

    def inner_len(rest, k):           # measure of x_k in [s,e] with x_k < 1 - rest
        return min(max(1.0 - rest - start[k], 0.0), end[k] - start[k])

    def rec(k, rest):
        if k == d - 1:
            return inner_len(rest, k)
        s, e = start[k], end[k]
        # the integrand (as function of x_k) has kinks where 1-rest-x_k-sum(other starts/ends) crosses; split finely
        cuts = sorted({s, e} | {c for c in [1.0 - rest - sum(v) for v in itertools.product(*[(start[j], end[j]) for j in range(k + 1, d)])] if s < c < e})
        tot = 0.0
        for lo, hi in zip(cuts[:-1], cuts[1:]):
            t = lo + (X + 1) * (hi - lo) / 2
            tot += sum(w * rec(k + 1, rest + x) for x, w in zip(t, W)) * (hi - lo) / 2
        return tot
    return rec(0, 0.0)


def _class_menu():
    """name -> (factory(d) -> (function, breaks per dim, power, out_len) or None, box kind)"""
    from sparseSpACE import Function as F
    co = [1.5, -2.0, 0.75]
    pos = [1.0, 2.0, 0.5]
    mid = [0.25, 0.5, 0.6]
    m = {}
    m["ConstantValue"] = (lambda d: (F.ConstantValue(3.0), [[]] * d, None, 1), "any")
    m["FunctionLinear"] = (lambda d: (F.FunctionLinear(co[:d]), [[]] * d, None, 1), "any")
    m["FunctionMultilinear"] = (lambda d: (F.FunctionMultilinear(co[:d]), [[]] * d, None, 1), "any")
    m["FunctionPolynomial_deg2"] = (lambda d: (F.FunctionPolynomial(co[:d], degree=2), [[]] * d, None, 1), "any")
    m["FunctionPolynomial_deg3"] = (lambda d: (F.FunctionPolynomial(pos[:d], degree=3), [[]] * d, None, 1), "any")
    m["Polynomial1d"] = (lambda d: (F.Polynomial1d([1.0, -2.0, 0.5, 3.0]), [[]], None, 1) if d == 1 else None, "any")
    m["LambdaFunction"] = (lambda d: (F.LambdaFunction(lambda x: math.cos(2 * x[0]), lambda x: math.sin(2 * x[0]) / 2), [[]], None, 1) if d == 1 else None, "any")
    m["GenzCornerPeak"] = (lambda d: (F.GenzCornerPeak(pos[:d]), [[]] * d, None, 1), "nonneg")   # pole where 1 + sum c_i x_i = 0
    m["GenzProductPeak"] = (lambda d: (F.GenzProductPeak([2.0, 3.0, 1.5][:d], mid[:d]), [[mid[k]] for k in range(d)], None, 1), "any")
    m["GenzOszillatory"] = (lambda d: (F.GenzOszillatory([3.0, 1.0, 2.0][:d], 0.25), [[]] * d, None, 1), "any")
    m["GenzOszillatory_one_zero_coeff"] = (lambda d: (F.GenzOszillatory([3.0, 0.0, 2.0][:d], 0.1), [[]] * d, None, 1) if d >= 2 else None, "any")
    m["GenzOszillatory_all_zero_coeffs"] = (lambda d: (F.GenzOszillatory([0.0, 0.0, 0.0][:d], 0.1), [[]] * d, None, 1), "any")
    m["GenzDiscontinious"] = (lambda d: (F.GenzDiscontinious(pos[:d], [0.5, 0.75, 0.3][:d]), [[b] for b in [0.5, 0.75, 0.3][:d]], None, 1), "any")
    m["GenzDiscontinious2"] = (lambda d: (F.GenzDiscontinious2(pos[:d], [0.5, 0.75, 0.3][:d]), [[b] for b in [0.5, 0.75, 0.3][:d]], None, 2), "any")
    m["GenzC0"] = (lambda d: (F.GenzC0([2.0, 3.0, 1.0][:d], mid[:d]), [[mid[k]] for k in range(d)], None, 1), "any")
    m["GenzGaussian"] = (lambda d: (F.GenzGaussian(mid[:d], [3.0, 2.0, 1.0][:d]), [[mid[k]] for k in range(d)], None, 1), "any")
    m["FunctionExpVar"] = (lambda d: (F.FunctionExpVar(), [[]] * d, d, 1), "nonneg")
    m["FunctionCompose"] = (lambda d: (F.FunctionCompose([(F.FunctionLinear(co[:d]), 2.0), (F.GenzGaussian(mid[:d], [3.0, 2.0, 1.0][:d]), -0.5)]),
                                       [[mid[k]] for k in range(d)], None, 1), "any")
    # compositions whose FIRST / LAST component clips the box at a discontinuity (every component must see the box the caller passed)
    m["FunctionCompose_discontinuous_first"] = (lambda d: (F.FunctionCompose([(F.GenzDiscontinious(pos[:d], [0.5, 0.75, 0.3][:d]), 1.0), (F.GenzGaussian(mid[:d], [3.0, 2.0, 1.0][:d]), -0.5),
                                                                              (F.FunctionLinear(co[:d]), 2.0)]),
                                                           [sorted({[0.5, 0.75, 0.3][k], mid[k]}) for k in range(d)], None, 1), "any")
    m["FunctionCompose_discontinuous_last"] = (lambda d: (F.FunctionCompose([(F.GenzGaussian(mid[:d], [3.0, 2.0, 1.0][:d]), -0.5), (F.FunctionLinear(co[:d]), 2.0),
                                                                             (F.GenzDiscontinious(pos[:d], [0.5, 0.75, 0.3][:d]), 1.0)]),
                                                          [sorted({[0.5, 0.75, 0.3][k], mid[k]}) for k in range(d)], None, 1), "any")
    m["FunctionShift"] = (lambda d: (F.FunctionShift(F.GenzGaussian(mid[:d], [3.0, 2.0, 1.0][:d]), lambda c: [x + 0.25 for x in c]),
                                     [[mid[k] - 0.25] for k in range(d)], None, 1), "any")
    m["FunctionG"] = (lambda d: (F.FunctionG(d), [[0.5]] * d, None, 1), "unit")
    m["FunctionGShifted"] = (lambda d: (F.FunctionGShifted(d), [[0.3, 0.8]] * d, None, 1), "unit")
    m["FunctionDiagonalDiscont"] = (lambda d: (F.FunctionDiagonalDiscont(), None, None, 1), "unit")
    # parameters that are zero (falsy but legal)
    m["ConstantValue_zero"] = (lambda d: (F.ConstantValue(0.0), [[]] * d, None, 1), "any")
    m["FunctionLinear_zero_coeff"] = (lambda d: (F.FunctionLinear([1.5, 0.0, 0.75][:d]), [[]] * d, None, 1) if d >= 2 else None, "any")
    m["GenzOszillatory_zero_offset"] = (lambda d: (F.GenzOszillatory([3.0, 1.0, 2.0][:d], 0.0), [[]] * d, None, 1), "any")
    m["GenzProductPeak_midpoint_zero"] = (lambda d: (F.GenzProductPeak([2.0, 3.0, 1.5][:d], [0.0, 0.5, 0.6][:d]), [[[0.0, 0.5, 0.6][k]] for k in range(d)], None, 1), "any")
    m["GenzGaussian_midpoint_zero"] = (lambda d: (F.GenzGaussian([0.0, 0.5, 0.6][:d], [3.0, 2.0, 1.0][:d]), [[[0.0, 0.5, 0.6][k]] for k in range(d)], None, 1), "any")
    m["FunctionUQ"] = (lambda d: (F.FunctionUQ(), [[], [0.0], []], None, 1) if d == 3 else None, "uq")
    m["FunctionUQShifted"] = (lambda d: (F.FunctionUQShifted(), [[], [-0.221413], []], None, 1) if d == 3 else None, "uq")
    m["FunctionUQ2"] = (lambda d: (F.FunctionUQ2(), [[], [0.0]], None, 1) if d == 2 else None, "uq")
    # classes without an integral of their own: the base class integrates numerically (dblquad / tplquad) - asymmetric integrand
    m["CustomFunction_base_class_integral"] = (lambda d: (F.CustomFunction(lambda x: x[0] + 2.0 * x[1] ** 2 + x[0] * x[1] + (x[2] ** 3 - x[0] * x[2] if len(x) > 2 else 0.0)),
                                                           [[]] * d, None, 1) if d >= 2 else None, "uq")
    return m


def _boxes(d, kind, tier):
    if kind == "unit":
        return [([0.0] * d, [1.0] * d)]
    if kind == "uq":
        return [([0.0] * d, [1.0] * d), ([-1.0] * d, [1.0] * d), ([-0.5, 0.25, 0.0][:d], [0.5, 1.0, 2.0][:d])]
    c = [0.0, 0.25, 0.5, 1.0]
    iv = [(c[i], c[j]) for i in range(4) for j in range(i + 1, 4)]
    if d == 3 and tier == "quick":
        iv = [(0.0, 1.0), (0.25, 0.5), (0.5, 1.0), (0.0, 0.25)]
    out = [([x[0] for x in b], [x[1] for x in b]) for b in itertools.product(iv, repeat=d)]
    extra = [(1.0, 2.0), (0.5, 2.0)] if kind in ("any", "nonneg") else []
    if kind == "any":
        extra.append((-1.0, 0.5))
    # degenerate box: zero width in the first dimension (the integral is 0)
    out.append(([0.25] + [0.0] * (d - 1), [0.25] + [1.0] * (d - 1)))
    for e in extra:
        out.append(([e[0]] * d, [e[1]] * d))
        if d >= 2:
            out.append(([e[0]] + [0.0] * (d - 1), [e[1]] + [1.0] * (d - 1)))
            out.append(([0.25] * (d - 1) + [e[0]], [0.5] * (d - 1) + [e[1]]))
    return out


def _int_case(c):
    name, d, start, end = c["class"], c["d"], c["start"], c["end"]
    key = {"class": name}
    fac, kind = _class_menu()[name]
    made = fac(d)
    if made is None:
        return [], ("not_offered",)
    f, breaks, power, out_len = made
    try:
        if c.get("box_type") == "ndarray":      # the box as float64 arrays (what the combination classes pass)
            val = f.getAnalyticSolutionIntegral(np.array(start, dtype=float), np.array(end, dtype=float))
        elif c.get("box_type") == "tuple":
            val = f.getAnalyticSolutionIntegral(tuple(start), tuple(end))
        else:
            val = f.getAnalyticSolutionIntegral(list(start), list(end))
    except AssertionError:
        return [], ("refused",)            # the class refuses boxes outside its domain
    if val is None:
        return [fail("analytic_integral_is_none", "%s(d=%d).getAnalyticSolutionIntegral(%r,%r) returned None" % (name, d, start, end), key)], ("none",)
    val = np.asarray(val, dtype=float).reshape(-1)
    if val.shape == (1,) and out_len > 1:
        val = np.full(out_len, val[0])     # a scalar stands for the same value in every component
    if name == "FunctionDiagonalDiscont":
        ref = np.array([_simplex_volume(start, end)])
    else:
        n = 24 if d <= 2 else 14
        ref = _gauss(f.eval, start, end, breaks, n, out_len, power)
    tol = 1e-6 if kind == "uq" else 1e-9
    if val.shape != ref.shape or not (np.max(np.abs(val - ref)) <= tol * max(1.0, float(np.max(np.abs(ref))))):
        on_unit = all(s == 0.0 for s in start) and all(e == 1.0 for e in end)
        return [fail("analytic_integral", "%s(d=%d) on [%r,%r]: analytic %r, numerical integral of eval %r" % (name, d, start, end, val.tolist(), ref.tolist()),
                     dict(key))], ("mismatch",)
    return [], ("ok", round(float(ref[0]), 9))


def _paths_case(c):
    """every built-in class: the scalar implementation, single calls, a batch call and the vectorised implementation agree on a small
    point lattice (fresh object per path, so that no path is answered from the cache another path filled)"""
    name, d, start, end = c["class"], c["d"], c["start"], c["end"]
    key = {"class": name}
    fac, kind = _class_menu()[name]
    if fac(d) is None:
        return [], ("not_offered",)
    ts = [0.3, 0.8] if d == 3 else [0.0, 0.3, 0.55, 1.0]
    P = [tuple(float(start[k] + t * (end[k] - start[k])) for k, t in enumerate(tt)) for tt in itertools.product(ts, repeat=d)]
    f0 = fac(d)[0]
    try:
        ref = np.array([np.asarray(f0.eval(p), dtype=float).reshape(-1) for p in P])
    except (AssertionError, ValueError, ZeroDivisionError):
        return [], ("refused",)
    scale = max(1.0, float(np.max(np.abs(ref))))
    fails = []

    def cmp(what, got):
        got = np.asarray(got, dtype=float).reshape(len(P), -1)
        if got.shape != ref.shape or not (np.max(np.abs(got - ref)) <= 1e-12 * scale):
            i = int(np.argmax(np.max(np.abs(got - ref), axis=1))) if got.shape == ref.shape else 0
            fails.append(fail("evaluation_paths_agree", "%s(d=%d): %s at %r gives %r, the scalar implementation %r" % (name, d, what, P[i], got[i].tolist() if got.shape == ref.shape else got.shape, ref[i].tolist()), dict(key, path=what.split()[0])))
    f1 = fac(d)[0]
    cmp("single calls", [np.asarray(f1(p), dtype=float).reshape(-1) for p in P])
    f2 = fac(d)[0]
    cmp("batch call", f2(list(P)))
    cmp("single calls after the batch", [np.asarray(f2(p), dtype=float).reshape(-1) for p in P])
    f3 = fac(d)[0]
    try:
        v = f3.eval_vectorized(np.array(P, dtype=float))
    except (NotImplementedError, AttributeError):
        v = None
    if v is not None:
        cmp("eval_vectorized on a 2-D array", v)
    return fails, ("ok", len(P))


def run_case(case):
    c = case["config"]
    if c["kind"] == "paths":
        fails, out = _paths_case(c)
        return {"failures": fails, "canon": core.config_key(c), "outcome": out, "nontrivial": out[0] == "ok", "evals": 4}
    if c["kind"] == "seq":
        fails, n = _seq_case(c)
        return {"failures": fails, "canon": core.config_key(c), "outcome": (n, len(fails)), "nontrivial": True, "evals": n}
    fails, out = _int_case(c)
    return {"failures": fails, "canon": core.config_key(c), "outcome": out, "nontrivial": out[0] not in ("not_offered", "refused"), "evals": 1}


def cases(tier):
    out = []
    depth = 4 if tier == "quick" else 5
    for name in FUNCS_A:
        for a in OPS:
            for b in OPS:
                out.append({"config": {"kind": "seq", "function": name, "prefix": [a, b], "depth": depth}})
    menu = _class_menu()
    for name, (fac, kind) in menu.items():
        for d in (1, 2, 3):
            if fac(d) is None:
                continue
            for s, e in _boxes(d, kind, tier):
                out.append({"config": {"kind": "int", "class": name, "d": d, "start": s, "end": e}})
            for s, e in _boxes(d, kind, "quick")[:2]:
                out.append({"config": {"kind": "paths", "class": name, "d": d, "start": s, "end": e}})
            if d <= 2:
                for bt in ("ndarray", "tuple"):
                    for s, e in _boxes(d, kind, "quick"):
                        out.append({"config": {"kind": "int", "class": name, "d": d, "start": s, "end": e, "box_type": bt}})
    return out


def main(ctx):
    cs = cases(ctx.tier)
    ctx.determinism_probe({"config": {"kind": "seq", "function": "custom_vector", "prefix": ["batch_p1_p2", "reset", "single_p1"], "depth": 3}})
    results = ctx.map(cs)
    nseq = 0
    for case, res in zip(cs, results):
        c = case["config"]
        ctx.absorb(case, res, group=("seq_" + c["function"]) if c["kind"] == "seq" else (("paths_" if c["kind"] == "paths" else "int_") + c["class"]))
        if c["kind"] == "seq":
            nseq += res["evals"]
    ctx.add_sample({"function": "linear", "sequence": ["batch_p2_p2_p3", "reset", "single_p2_list", "size"]})
    ctx.add_sample([c for c in cs if c["config"]["kind"] == "int"][40])
    ctx.add_sample([c for c in cs if c["config"]["kind"] == "int"][-3])
    ctx.bounds = {"operation_sequences": nseq, "sequence_depth": 4 if ctx.tier == "quick" else 5, "alphabet": OPS, "functions": FUNCS_A,
                  "integral_cases": sum(1 for c in cs if c["config"]["kind"] == "int"), "evaluation_path_cases": sum(1 for c in cs if c["config"]["kind"] == "paths"), "classes": sorted(_class_menu())}
    return ctx.finish(
        rule="(a) every operation sequence of the stated depth over the 11-operation alphabet on 12 real Function objects (one case = "
             "all completions of a 2-operation prefix; evaluations = sequences), lock-step with the reference model after every "
             "step; (b) complete lattice class x d x box with corners in {0,1/4,1/2,1}^d plus boxes off the unit cube; (c) for every class of the menu and "
             "d <= 3 the four evaluation paths (scalar eval, single calls, batch call, eval_vectorized) on a point lattice of two boxes, fresh object per path",
        assumptions=["counter compared only while caching is on", "numerical oracle: composite tensor Gauss-Legendre (24 points per smooth "
                     "piece, 14 in 3D), cells split at kinks/discontinuities; FunctionExpVar after the substitution x=t^d; "
                     "FunctionDiagonalDiscont by nested exact integration of the clipped inner length",
                     "FunctionGeneralizedNormal excluded (marked incorrect in the source); FunctionUQNormal/UQNormal2 excluded (their "
                     "'analytic' value is a density-weighted expectation, not the integral of eval); tolerance 1e-9 (1e-6 for the "
                     "FunctionUQ classes whose own value is a scipy quad result)"])
