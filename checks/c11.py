"""C11 - Romberg extrapolation grids give consistent, exact-to-order weights.

Exhaustive enumeration of dyadic refinement trees (all trees with leaves at depth <= m, all Catalan trees with <= n
inner points) on three intervals x every slice grouping x Romberg/trapezoidal slices x default/Simpson containers x
forced balancing on/off; BalancedExtrapolationGrid on all balanced trees; GlobalRombergGrid weight cache over all
ordered pairs of small trees (cache transparency); all operation sequences of length <= 3 on the GridBinaryTree
singleton.  Oracle: weights sum to b-a and integrate x exactly; complete trees of depth m reach degree 2m+1 (2m-1
balanced); forcing a full tree keeps all given points with their levels and gives every inner point 0 or 2 children.
"""
import itertools

import numpy as np

from mc import core, trees
from mc.core import fail

PID = "C11"


def _moment(k, a, b):
    return (b ** (k + 1) - a ** (k + 1)) / (k + 1)


def _children_ok(levels):
    """binary refinement tree law + every inner point has 0 or 2 children; returns (valid_tree, zero_or_two)"""
    ok_tree, ok_02 = True, True

    def rec(lo, hi, lvl):
        nonlocal ok_tree, ok_02
        inner = range(lo + 1, hi)
        if len(inner) == 0:
            return False
        m = min(levels[i] for i in inner)
        roots = [i for i in inner if levels[i] == m]
        if len(roots) != 1 or m != lvl:
            ok_tree = False
            return True
        r = roots[0]
        l_has = rec(lo, r, lvl + 1)
        r_has = rec(r, hi, lvl + 1)
        if l_has != r_has:
            ok_02 = False
        return True
    if levels[0] != 0 or levels[-1] != 0:
        ok_tree = False
    # the root (level 1) may have children on both sides or none; boundary points are not inner points
    rec(0, len(levels) - 1, 1)
    return ok_tree, ok_02


def _max_degree(pts, w, a, b, upto):
    sc = max(1.0, abs(a), abs(b))
    for k in range(upto + 1):
        val = float(sum(wi * p ** k for wi, p in zip(w, pts)))
        if not (abs(val - _moment(k, a, b)) <= 1e-10 * sc ** k * (b - a)):
            return k - 1
    return upto


def _ext_case(c):
    from sparseSpACE.Extrapolation import ExtrapolationGrid, SliceGrouping, SliceVersion, SliceContainerVersion
    pts, lv, a, b = c["points"], c["levels"], c["a"], c["b"]
    fails, out = [], []
    m_complete = trees.is_complete_level(pts, a, b)
    complete = len(pts) == 2 ** m_complete + 1
    for sg in SliceGrouping:
        for sv in (SliceVersion.ROMBERG_DEFAULT, SliceVersion.TRAPEZOID):
            for cv in (SliceContainerVersion.ROMBERG_DEFAULT, SliceContainerVersion.SIMPSON_ROMBERG):
                for fb in (False, True):
                    g = ExtrapolationGrid(slice_grouping=sg, slice_version=sv, container_version=cv,
                                          force_balanced_refinement_tree=fb)
                    g.set_grid(list(pts), list(lv))
                    w = [float(x) for x in g.get_weights()]
                    G = [float(x) for x in g.get_grid()]
                    GL = [int(x) for x in g.get_grid_levels()]
                    multi = any(cont.size() >= 2 for cont in g.slice_containers)
                    key = {"grouping": sg.name, "slices": sv.name, "container": cv.name}
                    if cv == SliceContainerVersion.SIMPSON_ROMBERG:
                        key["multi_slice_container"] = multi
                    if len(w) != len(G):
                        fails.append(fail("weights_length", "%d weights for %d grid points" % (len(w), len(G)), key))
                        continue
                    if fb:
                        given = dict(zip([float(p) for p in pts], lv))
                        got = dict(zip(G, GL))
                        if not set(given) <= set(got) or any(got[p] != l for p, l in given.items()):
                            fails.append(fail("forced_tree_keeps_given_points", "given %r/%r, forced %r/%r" % (pts, lv, G, GL), key))
                        okt, ok02 = _children_ok(GL)
                        if not okt or not ok02 or G != sorted(G):
                            fails.append(fail("forced_tree_zero_or_two_children", "forced grid %r levels %r" % (G, GL), key))
                    elif G != [float(p) for p in pts]:
                        fails.append(fail("grid_changed_without_forcing", "grid %r, given %r" % (G, pts), key))
                    s0 = sum(w)
                    s1 = sum(wi * p for wi, p in zip(w, G))
                    sc = max(1.0, abs(a), abs(b))
                    if not (abs(s0 - (b - a)) <= 1e-11 * (b - a)):
                        fails.append(fail("weights_sum", "points %r: sum of weights %r, interval length %r" % (pts, s0, b - a), key))
                    elif not (abs(s1 - _moment(1, a, b)) <= 1e-11 * sc * (b - a)):
                        fails.append(fail("linear_exactness", "points %r: integral of x %r, exact %r" % (pts, s1, _moment(1, a, b)), key))
                    if complete and sv == SliceVersion.ROMBERG_DEFAULT and cv == SliceContainerVersion.ROMBERG_DEFAULT:
                        dg = _max_degree(G, w, a, b, 2 * m_complete + 1)
                        if dg < 2 * m_complete + 1:
                            fails.append(fail("romberg_order", "complete grid of depth %d: exact up to degree %d, expected %d" % (m_complete, dg, 2 * m_complete + 1), key))
                    out.append(round(s0, 10))
    return fails, out


def _balanced_case(c):
    from sparseSpACE.Extrapolation import BalancedExtrapolationGrid
    pts, lv, a, b = c["points"], c["levels"], c["a"], c["b"]
    key = {"grid": "balanced"}
    fails = []
    g = BalancedExtrapolationGrid()
    g.set_grid(list(pts), list(lv))
    w = [float(x) for x in g.get_weights()]
    G = [float(x) for x in g.get_grid()]
    if len(w) != len(G) or G != [float(p) for p in pts]:
        fails.append(fail("balanced_grid_points", "grid %r weights %d given %r" % (G, len(w), pts), key))
        return fails, []
    # asking the same object again (and a third time) must give the same weights
    for n in (2, 3):
        wn = [float(x) for x in g.get_weights()]
        if len(wn) != len(w) or any(not (abs(x - y) <= 1e-14 * max(1.0, abs(y))) for x, y in zip(wn, w)):
            fails.append(fail("repeated_query_changes_weights", "points %r: get_weights() call no. %d returns %r, the first call %r" % (pts, n, wn[:5], w[:5]), key))
            break
    sc = max(1.0, abs(a), abs(b))
    s0 = sum(w)
    s1 = sum(wi * p for wi, p in zip(w, G))
    if not (abs(s0 - (b - a)) <= 1e-11 * (b - a)):
        fails.append(fail("weights_sum", "points %r: sum %r length %r" % (pts, s0, b - a), key))
    elif not (abs(s1 - _moment(1, a, b)) <= 1e-11 * sc * (b - a)):
        fails.append(fail("linear_exactness", "points %r: integral of x %r exact %r" % (pts, s1, _moment(1, a, b)), key))
    m = trees.is_complete_level(pts, a, b)
    if len(pts) == 2 ** m + 1 and m >= 1:
        dg = _max_degree(G, w, a, b, 2 * m - 1)
        if dg < 2 * m - 1:
            fails.append(fail("balanced_order", "complete grid of depth %d: exact up to degree %d, expected %d" % (m, dg, 2 * m - 1), key))
    return fails, [round(s0, 10)]


def _cache_case(c):
    """GlobalRombergGrid: weights with the cache on must equal weights with the cache off for the sequence t0, t1, t0"""
    from sparseSpACE.Grid import GlobalRombergGrid
    from sparseSpACE.Extrapolation import SliceGrouping
    a, b = c["a"], c["b"]
    seq = [c["trees"][0], c["trees"][1], c["trees"][0]]
    if c.get("refuse"):
        # the middle request is one the grid refuses (the deepest point of the tree labelled one level too deep: the levels do not fit
        # the spacing); the caller catches the exception and asks for the first grid again
        pts, lv = c["trees"][0]
        bad = list(lv)
        bad[max(range(len(bad)), key=lambda i: bad[i])] += 1
        seq = [c["trees"][0], ("refuse", (list(pts), bad)), c["trees"][0]]
    fails = []
    for sg in (SliceGrouping.UNIT, SliceGrouping.GROUPED, SliceGrouping.GROUPED_OPTIMIZED) if c.get("refuse") else (SliceGrouping.UNIT, SliceGrouping.GROUPED_OPTIMIZED):
        key = {"grid": "GlobalRombergGrid", "grouping": sg.name}
        on = GlobalRombergGrid(np.array([a]), np.array([b]), do_cache=True, slice_grouping=sg)
        off = GlobalRombergGrid(np.array([a]), np.array([b]), do_cache=False, slice_grouping=sg)
        for step, (pts, lv) in enumerate(seq):
            if pts == "refuse":
                for g in (on, off):
                    try:
                        g.set_grid([list(lv[0])], [list(lv[1])])
                    except Exception:
                        pass
                continue
            on.set_grid([list(pts)], [list(lv)])
            off.set_grid([list(pts)], [list(lv)])
            w_on = [float(x) for x in on.weights[0]]
            w_off = [float(x) for x in off.weights[0]]
            if c.get("refuse") and step == 2:
                fresh = GlobalRombergGrid(np.array([a]), np.array([b]), do_cache=False, slice_grouping=sg)
                fresh.set_grid([list(pts)], [list(lv)])
                w_fresh = [float(x) for x in fresh.weights[0]]
                for nm, w in (("cached", w_on), ("uncached", w_off)):
                    if len(w) != len(w_fresh) or any(not (abs(x - y) <= 1e-13 * max(1.0, abs(y))) for x, y in zip(w, w_fresh)):
                        fails.append(fail("weights_after_refused_request", "grid %r asked again after a refused request on the %s object: %r, fresh object %r" % (pts, nm, w[:6], w_fresh[:6]), key))
                        break
                if fails:
                    break
            if w_on != w_off:
                fails.append(fail("weight_cache_transparent", "step %d grid %r: cached %r, uncached %r" % (step, pts, w_on, w_off), key))
                break
            if not (abs(sum(w_on) - (b - a)) <= 1e-11 * (b - a)):
                fails.append(fail("weights_sum", "points %r: sum %r" % (pts, sum(w_on)), key))
                break
    return fails, [len(seq)]


def _objreuse_case(c):
    """ONE ExtrapolationGrid / BalancedExtrapolationGrid object receives a sequence of trees; weights must equal a fresh object's"""
    from sparseSpACE.Extrapolation import ExtrapolationGrid, BalancedExtrapolationGrid, SliceGrouping, SliceVersion, SliceContainerVersion
    fails = []
    variants = [("balanced", None)] if c["balanced"] else [(sg, fb) for sg in SliceGrouping for fb in (False, True)]
    for sg, fb in variants:
        key = {"grid": "balanced" if c["balanced"] else "ExtrapolationGrid", "oracle_kind": "object_reuse"}
        make = (lambda: BalancedExtrapolationGrid()) if c["balanced"] else (lambda: ExtrapolationGrid(slice_grouping=sg, slice_version=SliceVersion.ROMBERG_DEFAULT,
                                                                                                       container_version=SliceContainerVersion.ROMBERG_DEFAULT,
                                                                                                       force_balanced_refinement_tree=fb))
        g = make()
        for step, (pts, lv) in enumerate(c["sequence"]):
            if pts == "refuse":
                try:
                    g.set_grid(list(lv[0]), list(lv[1]))
                    g.get_weights()
                except Exception:
                    pass
                continue
            g.set_grid(list(pts), list(lv))
            w1 = [float(x) for x in g.get_weights()]
            w1b = [float(x) for x in g.get_weights()]          # the same request twice on one object
            if len(w1b) != len(w1) or any(not (abs(x - y) <= 1e-14 * max(1.0, abs(y))) for x, y in zip(w1b, w1)):
                fails.append(fail("repeated_query_changes_weights", "variant %r step %d points %r: second get_weights() %r, first %r" % ((str(sg), fb), step, pts, w1b[:5], w1[:5]), key))
                return fails, [step]
            G1 = [float(x) for x in g.get_grid()]
            f = make()
            f.set_grid(list(pts), list(lv))
            w2 = [float(x) for x in f.get_weights()]
            G2 = [float(x) for x in f.get_grid()]
            if G1 != G2 or len(w1) != len(w2) or any(not (abs(x - y) <= 1e-13) for x, y in zip(w1, w2)):
                fails.append(fail("reused_object_weights", "variant %r step %d points %r after %r: weights %r, fresh object %r" % ((str(sg), fb), step, pts, [t[0] for t in c["sequence"][:step]], w1[:5], w2[:5]), key))
                return fails, [step]
    return fails, [len(c["sequence"])]


def _cache2d_case(c):
    """one cached GlobalRombergGrid object on an anisotropic 2D domain: each dimension must get the weights of ITS interval"""
    from sparseSpACE.Grid import GlobalRombergGrid
    from sparseSpACE.Extrapolation import SliceGrouping
    a, b = c["a"], c["b"]
    fails = []
    for sg in (SliceGrouping.UNIT, SliceGrouping.GROUPED_OPTIMIZED):
        key = {"grid": "GlobalRombergGrid_2d", "grouping": sg.name}
        on = GlobalRombergGrid(np.array(a), np.array(b), do_cache=True, slice_grouping=sg)
        for step, pair in enumerate(c["sequence"]):
            coords = [list(t[0]) for t in pair]
            lvs = [list(t[1]) for t in pair]
            on.set_grid(coords, lvs)
            for k in range(2):
                off = GlobalRombergGrid(np.array([a[k]]), np.array([b[k]]), do_cache=False, slice_grouping=sg)
                off.set_grid([coords[k]], [lvs[k]])
                w_on = [float(x) for x in on.weights[k]]
                w_off = [float(x) for x in off.weights[0]]
                if w_on != w_off:
                    fails.append(fail("weight_cache_transparent", "step %d dimension %d points %r: cached %r, uncached %r" % (step, k, coords[k], w_on, w_off), key))
                    return fails, [len(c["sequence"])]
                if not (abs(sum(w_on) - (b[k] - a[k])) <= 1e-11 * (b[k] - a[k])):
                    fails.append(fail("weights_sum", "dimension %d points %r: sum %r, length %r" % (k, coords[k], sum(w_on), b[k] - a[k]), key))
                    return fails, [len(c["sequence"])]
    return fails, [len(c["sequence"])]


def _tree_ops_case(c):
    """GridBinaryTree is a singleton: after any sequence of operations the result must depend on the last init_tree only"""
    from sparseSpACE.Extrapolation import GridBinaryTree
    key = {"grid": "GridBinaryTree"}
    fails = []
    ops = c["ops"]
    last = None
    forced = False
    t = GridBinaryTree()
    for op in ops:
        if op[0] == "init":
            t = GridBinaryTree()
            t.init_tree(list(op[1]), list(op[2]))
            last, forced = (op[1], op[2]), False
        elif op[0] == "force" and last is not None:
            t.force_full_tree_invariant()
            forced = True
        elif op[0] == "get" and last is not None:
            G = [float(x) for x in t.get_grid()]
            GL = [int(x) for x in t.get_grid_levels()]
            # reference: the same on a sequence consisting of the last init (+force) only
            r = GridBinaryTree()
            r.init_tree(list(last[0]), list(last[1]))
            if forced:
                r.force_full_tree_invariant()
            RG, RL = [float(x) for x in r.get_grid()], [int(x) for x in r.get_grid_levels()]
            if (G, GL) != (RG, RL):
                fails.append(fail("depends_on_last_init_only", "ops %r: grid %r/%r, fresh %r/%r" % (ops, G, GL, RG, RL), key))
                break
            given = dict(zip([float(p) for p in last[0]], last[1]))
            got = dict(zip(G, GL))
            if not set(given) <= set(got) or any(got[p] != l for p, l in given.items()):
                fails.append(fail("tree_keeps_given_points", "given %r/%r, tree %r/%r" % (last[0], last[1], G, GL), key))
                break
            if not forced and G != [float(p) for p in last[0]]:
                fails.append(fail("tree_adds_points_without_forcing", "given %r, tree %r" % (last[0], G), key))
                break
            okt, ok02 = _children_ok(GL)
            if not okt or (forced and not ok02) or G != sorted(G):
                fails.append(fail("forced_tree_zero_or_two_children", "grid %r levels %r" % (G, GL), key))
                break
    return fails, [len(ops)]


def run_case(case):
    c = case["config"]
    fails, out = {"ext": _ext_case, "balanced": _balanced_case, "cache": _cache_case, "cache2d": _cache2d_case, "objreuse": _objreuse_case, "treeops": _tree_ops_case}[c["kind"]](c)
    return {"failures": fails, "canon": core.config_key(c), "outcome": tuple(out), "nontrivial": True, "evals": max(1, len(out))}


def cases(tier):
    q = tier == "quick"
    out = []
    for a, b in ((0.0, 1.0), (-1.0, 1.0), (2.0, 4.0), (1048576.0, 1048577.0)):
        T = trees.tree_family(4, 6 if q else 8, a, b) if a < 1e6 else trees.tree_family(3, 5, a, b)     # far from the origin: smaller family
        for pts, lv in T:
            out.append({"config": {"kind": "ext", "a": a, "b": b, "points": pts, "levels": lv}})
            if _children_ok(lv) == (True, True):
                out.append({"config": {"kind": "balanced", "a": a, "b": b, "points": pts, "levels": lv}})
    small = trees.tree_family(2, 3, 0.0, 1.0)
    for t0 in small:
        for t1 in small:
            out.append({"config": {"kind": "cache", "a": 0.0, "b": 1.0, "trees": [list(t0), list(t1)]}})
    for t0 in trees.tree_family(3, 4, -1.0, 1.0):
        out.append({"config": {"kind": "cache", "a": -1.0, "b": 1.0, "trees": [list(t0), list(t0)], "refuse": True}})
    fam = trees.tree_family(3, 4, 0.0, 1.0)
    famb = [t for t in fam if _children_ok(t[1]) == (True, True)]
    other = trees.tree_family(2, 3, 2.0, 4.0)
    for t0 in fam[:14]:
        for t1 in fam[:14]:
            out.append({"config": {"kind": "objreuse", "balanced": False, "sequence": [list(t0), list(t1), list(t0)]}})
        out.append({"config": {"kind": "objreuse", "balanced": False, "sequence": [list(t0), list(other[len(t0[0]) % len(other)]), list(t0)]}})
        bad = list(t0[1])
        bad[max(range(len(bad)), key=lambda i: bad[i])] += 1
        out.append({"config": {"kind": "objreuse", "balanced": False, "sequence": [list(t0), ["refuse", [list(t0[0]), bad]], list(t0)]}})
    for t0 in famb[:8]:
        for t1 in famb[:8]:
            out.append({"config": {"kind": "objreuse", "balanced": True, "sequence": [list(t0), list(t1), list(t0)]}})
    # anisotropic 2D domains / one object, several intervals: same tree SHAPE on intervals of different length
    for (a, b) in (([0.0, 0.0], [1.0, 4.0]), ([-1.0, 2.0], [1.0, 3.0])):
        fam0 = trees.tree_family(2, 3, a[0], b[0])
        fam1 = trees.tree_family(2, 3, a[1], b[1])
        for i, t0 in enumerate(fam0):
            for j, t1 in enumerate(fam1):
                seq = [[list(t0), list(t1)]]
                if i != j:
                    seq.append([list(fam0[j]), list(fam1[i])])
                out.append({"config": {"kind": "cache2d", "a": a, "b": b, "sequence": seq}})
    menu = [["init", t[0], t[1]] for t in trees.tree_family(2, 3, 0.0, 1.0)[:6 if q else 9]] + [["force"], ["get"]]
    for n in (1, 2, 3):
        for seq in itertools.product(menu, repeat=n):
            if seq[0][0] != "init":
                continue
            out.append({"config": {"kind": "treeops", "ops": [list(s) for s in seq] + [["get"]]}})
    return out


def main(ctx):
    cs = cases(ctx.tier)
    ctx.determinism_probe(cs[7])
    results = ctx.map(cs)
    for case, res in zip(cs, results):
        ctx.absorb(case, res, group=case["config"]["kind"])
    for i in (4, len(cs) // 3, len(cs) - 5):
        ctx.add_sample(cs[i])
    ctx.bounds = {k: sum(1 for c in cs if c["config"]["kind"] == k) for k in ("ext", "balanced", "cache", "cache2d", "objreuse", "treeops")}
    return ctx.finish(
        rule="ext: one refinement tree x interval, all 24 variants (3 groupings x 2 slice versions x 2 container versions x forced "
             "balancing) decided per case; balanced: every balanced tree; cache: every ordered pair of small trees through the "
             "GlobalRombergGrid wrapper with cache on/off; treeops: every sequence of <=3 operations (init_tree on one of the "
             "small trees / force_full_tree_invariant / get_grid) on the GridBinaryTree singleton followed by get_grid",
        assumptions=["dyadic trees on [0,1], [-1,1], [2,4]; experimental Lagrange containers and constant-subtraction slices out of scope "
                     "(as in the statement)", "tolerance 1e-11 (sums), 1e-10 (moments)"])
