"""C08 - local tensor quadrature grids honour their exactness and point contracts.

Exhaustive lattice: grid family x dimension (1,2) x every level vector of {0..L}^d x every dyadic sub-box (k<=2 per
dimension; touching the left end, the right end, both, none) of two float-exact domains (plus, for the trapezoidal family, a domain far from the origin).  Oracle: announced point
number, points inside the sub-box, weights sum to the volume, every tensor monomial up to the nominal degree
integrated exactly through grid.integrate; trapezoid with boundary points off == trapezoid with them on minus the
points on the global boundary, remaining weights unchanged.
"""
import itertools

import numpy as np

from mc import core
from mc.core import fail

PID = "C08"
FAMILIES = ["trapezoidal", "simpson", "clenshaw_curtis", "leja", "gauss_legendre", "lagrange1", "lagrange2", "lagrange3",
            "bspline1", "bspline3", "bspline5", "bspline7"]


def _grid(name, a, b, boundary=True):
    from sparseSpACE import Grid as G
    a, b = np.array(a, dtype=float), np.array(b, dtype=float)
    if name == "trapezoidal":
        return G.TrapezoidalGrid(a, b, boundary=boundary)
    if name == "simpson":
        return G.SimpsonGrid(a, b, boundary=boundary)
    if name == "clenshaw_curtis":
        return G.ClenshawCurtisGrid(a, b, boundary=boundary)
    if name == "leja":
        return G.LejaGrid(a, b, boundary=boundary)
    if name == "gauss_legendre":
        return G.GaussLegendreGrid(a, b)
    if name.startswith("lagrange"):
        return G.LagrangeGrid(a, b, boundary=boundary, p=int(name[-1]))
    if name.startswith("bspline"):
        return G.BSplineGrid(a, b, boundary=boundary, p=int(name[-1]))
    raise ValueError(name)


def nominal_degree(name, n):
    if name == "trapezoidal":
        return 1 if n >= 2 else 0
    if name == "simpson":
        return 3 if n >= 3 else (1 if n == 2 else 0)
    if name in ("clenshaw_curtis", "leja"):
        return n - 1
    if name == "gauss_legendre":
        return 2 * n - 1
    p = int(name[-1])
    return min(p, n - 1)


def _mono_exact(k, s, e):
    # exact rational arithmetic on the (float-exact) box ends: no cancellation on domains far from the origin
    from fractions import Fraction
    return float((Fraction(e) ** (k + 1) - Fraction(s) ** (k + 1)) / (k + 1))


def sub_boxes_1d(a, b, kmax=2):
    out = []
    for k in range(kmax + 1):
        h = (b - a) / 2 ** k
        for i in range(2 ** k):
            out.append((a + i * h, a + (i + 1) * h))
    return out


def _reuse_case(c):
    """one grid OBJECT serves a sequence of (level, sub-box) requests: every answer must equal the answer of a fresh object"""
    name, d, a, b = c["family"], c["d"], c["a"], c["b"]
    key = {"family": name, "oracle_kind": "object_reuse"}
    fails = []
    g = _grid(name, a, b, True)
    flags = c.get("boundary_flags") or [True] * len(c["requests"])
    if c.get("boundary_constructed") is False:
        g = _grid(name, a, b, False)           # constructed without boundary points (flags never switched)
    for step, req in enumerate(c["requests"]):
        if req[0] == "refuse":
            # a request the grid refuses (exception caught by the caller): the object must answer the next valid request like a fresh one
            try:
                if req[1] == "level_vector_too_long":
                    g.setCurrentArea(np.array(a, dtype=float), np.array(b, dtype=float), [2] * d + [1])
                elif req[1] == "integrate_level_vector_too_long":
                    from sparseSpACE.Function import CustomFunction
                    g.integrate(CustomFunction(lambda x: 1.0), [1] + [2] * d, np.array(a, dtype=float), np.array(b, dtype=float))
                elif req[1] == "count_with_boundary":
                    g.levelToNumPointsWithBoundary([2] * d)     # raises on an object that has not been given an area yet
                elif req[1] == "area_of_wrong_dimension":
                    g.setCurrentArea(np.array(list(a) + [0.0], dtype=float), np.array(list(b) + [1.0], dtype=float), [1] * d)
            except Exception:
                pass
            continue
        lv, s, e = req
        if c.get("boundary_constructed") is None:
            # the boundary flag may be switched on the SAME object between requests (public set_boundaries, as Integration does)
            g.set_boundaries([flags[step]] * d)
            g.boundary = flags[step]
        if c.get("caller_arrays") == "inplace":
            # the caller keeps ONE start array, ONE end array and ONE level list and overwrites them in place for every request (a sweep
            # `start[0] += h; end[0] += h; grid.setCurrentArea(start, end, levels)`): the grid must answer for the current contents
            if step == 0 or "S" not in c.get("_state", {}):
                c.setdefault("_state", {}).update(S=np.array(s, dtype=float), E=np.array(e, dtype=float), L=list(lv))
            st = c["_state"]
            st["S"][:] = s
            st["E"][:] = e
            st["L"][:] = list(lv)
            g.setCurrentArea(st["S"], st["E"], st["L"])
        else:
            g.setCurrentArea(np.array(s, dtype=float), np.array(e, dtype=float), list(lv))
        p1, w1 = g.get_points_and_weights()
        fresh = _grid(name, a, b, flags[step] if c.get("boundary_constructed") is None else False)
        fresh.setCurrentArea(np.array(s, dtype=float), np.array(e, dtype=float), list(lv))
        p2, w2 = fresh.get_points_and_weights()
        p1 = np.array([[float(x) for x in p] for p in p1]).reshape(-1, d)
        p2 = np.array([[float(x) for x in p] for p in p2]).reshape(-1, d)
        if p1.shape != p2.shape or not np.array_equal(p1, p2):
            fails.append(fail("reused_object_points", "request %d (level %r box %r-%r) after %r: points %r, fresh object %r" % (step, lv, s, e, c["requests"][:step], p1.tolist()[:4], p2.tolist()[:4]), key))
            break
        w1, w2 = np.asarray(w1, dtype=float), np.asarray(w2, dtype=float)
        if w1.shape != w2.shape or not np.allclose(w1, w2, rtol=1e-13, atol=1e-15):
            fails.append(fail("reused_object_weights", "request %d (level %r box %r-%r) after %r: weights %r, fresh object %r" % (step, lv, s, e, c["requests"][:step], w1.tolist()[:4], w2.tolist()[:4]), key))
            break
        tol = 1e-12
        if any(not (s[k] - tol * (1 + abs(s[k])) <= p[k] <= e[k] + tol * (1 + abs(e[k]))) for p in p1 for k in range(d)):
            fails.append(fail("points_inside_subbox", "request %d: points %r outside [%r,%r]" % (step, p1.tolist()[:3], s, e), {"family": name}))
            break
    c.pop("_state", None)
    return {"failures": fails, "canon": core.config_key(c), "outcome": (len(c["requests"]), len(fails)), "nontrivial": True, "evals": len(c["requests"])}


ONE_D = {"trapezoidal": "TrapezoidalGrid1D", "simpson": "SimpsonGrid1D", "clenshaw_curtis": "ClenshawCurtisGrid1D", "leja": "LejaGrid1D",
         "gauss_legendre": "GaussLegendreGrid1D"}


def _mixed_case(c):
    """a grid whose dimensions differ - different 1D families (MixedGrid) and / or different per-dimension boundary flags (set through the
    public set_boundaries) - serves a sequence of (level, sub-box) requests on ONE object.  Every answer must be the tensor product of
    what a fresh homogeneous one-dimensional grid of the family and flag of each dimension returns for that level and interval."""
    from sparseSpACE import Grid as G
    fams, flags, a, b = c["families"], c["flags"], c["a"], c["b"]
    d = len(fams)
    key = {"family": "mixed", "oracle_kind": "per_dimension_product"}
    fails = []

    def one_d(k, flag):
        if fams[k] == "gauss_legendre":
            return G.GaussLegendreGrid(np.array([a[k]]), np.array([b[k]]))
        return _grid(fams[k], [a[k]], [b[k]], flag)
    if c["build"] == "mixed":
        grids = []
        for k in range(d):
            cls = getattr(G, ONE_D[fams[k]])
            grids.append(cls(a=a[k], b=b[k], boundary=flags[k]) if fams[k] != "gauss_legendre" else cls(a=a[k], b=b[k]))
        g = G.MixedGrid(np.array(a, dtype=float), np.array(b, dtype=float), grids)
    else:       # homogeneous family built with boundary points, flags switched per dimension afterwards
        g = _grid(fams[0], a, b, True)
        g.set_boundaries(list(flags))
    for step, (lv, s, e) in enumerate(c["requests"]):
        g.setCurrentArea(np.array(s, dtype=float), np.array(e, dtype=float), list(lv))
        P, W = g.get_points_and_weights()
        got = {}
        for pp, ww in zip(P, W):
            got[tuple(float(x) for x in pp)] = got.get(tuple(float(x) for x in pp), 0.0) + float(ww)
        ann = int(np.prod(g.levelToNumPoints(list(lv))))
        per = []
        for k in range(d):
            r = one_d(k, flags[k])
            r.setCurrentArea(np.array([s[k]], dtype=float), np.array([e[k]], dtype=float), [lv[k]])
            p1, w1 = r.get_points_and_weights()
            per.append([(float(pp[0]), float(ww)) for pp, ww in zip(p1, w1)])
        want = {}
        for combo in itertools.product(*per):
            want[tuple(x for x, _ in combo)] = float(np.prod([w for _, w in combo]))
        if len(P) != ann:
            fails.append(fail("announced_point_number", "request %d (level %r box %r-%r): %d points returned, %d announced" % (step, lv, s, e, len(P), ann), key))
            break
        if set(got) != set(want):
            fails.append(fail("mixed_points", "request %d (level %r box %r-%r) families %r flags %r: points %r, per-dimension product %r" % (step, lv, s, e, fams, flags, sorted(got)[:5], sorted(want)[:5]), key))
            break
        if not (max(abs(got[q] - want[q]) for q in want) <= 1e-13 * max(1.0, max(abs(v) for v in want.values()))):
            fails.append(fail("mixed_weights", "request %d (level %r box %r-%r) families %r flags %r" % (step, lv, s, e, fams, flags), key))
            break
    return {"failures": fails, "canon": core.config_key(c), "outcome": (len(c["requests"]), len(fails)), "nontrivial": True, "evals": len(c["requests"])}


def run_case(case):
    from sparseSpACE.Function import CustomFunction
    c = case["config"]
    if c.get("kind") == "reuse":
        return _reuse_case(c)
    if c.get("kind") == "mixed":
        return _mixed_case(c)
    name, d, lv = c["family"], c["d"], c["level"]
    a, b, s, e = c["a"], c["b"], c["start"], c["end"]
    key = {"family": name}
    fails = []
    g = _grid(name, a, b, True)
    g.setCurrentArea(np.array(s, dtype=float), np.array(e, dtype=float), list(lv))
    pts, w = g.get_points_and_weights()
    pts = [tuple(float(x) for x in p) for p in pts]
    npts = [int(x) for x in g.levelToNumPoints(list(lv))]
    ann = int(np.prod(npts))
    if len(pts) != ann:
        fails.append(fail("announced_point_number", "%d points returned, %d announced (levelToNumPoints %r)" % (len(pts), ann, npts), key))
    if len(set(pts)) != len(pts):
        fails.append(fail("duplicate_points", "%r" % (pts[:6],), key))
    tol = 1e-12
    if any(not (s[k] - tol * (1 + abs(s[k])) <= p[k] <= e[k] + tol * (1 + abs(e[k]))) for p in pts for k in range(d)):
        fails.append(fail("points_inside_subbox", "points %r outside [%r,%r]" % ([p for p in pts if any(not (s[k] <= p[k] <= e[k]) for k in range(d))][:3], s, e), key))
    vol = float(np.prod(np.array(e) - np.array(s)))
    hierarchical = name.startswith("lagrange") or name.startswith("bspline")
    if not hierarchical:
        if len(w) != len(pts):
            fails.append(fail("weights_length", "%d weights for %d points" % (len(w), len(pts)), key))
        elif not (abs(float(np.sum(w)) - vol) <= 1e-11 * vol):
            fails.append(fail("weights_sum_to_volume", "sum of weights %r, volume %r" % (float(np.sum(w)), vol), key))
    # all tensor monomials up to the nominal degree per dimension
    degs = [nominal_degree(name, n) for n in npts]
    exps = list(itertools.product(*[range(q + 1) for q in degs]))
    f = CustomFunction(lambda x: [float(np.prod([x[k] ** ex[k] for k in range(d)])) for ex in exps], output_length=len(exps))
    g2 = _grid(name, a, b, True)
    val = np.asarray(g2.integrate(f, list(lv), np.array(s, dtype=float), np.array(e, dtype=float)), dtype=float).ravel()
    exact = np.array([np.prod([_mono_exact(ex[k], s[k], e[k]) for k in range(d)]) for ex in exps])
    scale = np.array([np.prod([max(abs(s[k]), abs(e[k]), 1.0) ** ex[k] * (e[k] - s[k]) for k in range(d)]) for ex in exps])
    rtol = 1e-9 if name in ("leja", "lagrange1", "lagrange2", "lagrange3", "bspline1", "bspline3", "bspline5", "bspline7") else 1e-11
    bad = np.where(np.abs(val - exact) > rtol * scale)[0]
    if len(bad):
        i = int(bad[0])
        fails.append(fail("nominal_degree_exactness", "monomial exponents %r: %r, exact %r (points per dim %r, nominal degrees %r)" % (exps[i], val[i], exact[i], npts, degs),
                          dict(key, degree0=(sum(exps[i]) == 0))))
    # two public entry points, one rule: for the nodal families sum_i w_i f(p_i) over get_points_and_weights() is what integrate() returns
    if not hierarchical and len(w) == len(pts) and len(pts):
        pw = np.zeros(len(exps))
        for pp, ww in zip(pts, w):
            pw += float(ww) * np.asarray(f.eval(tuple(pp)), dtype=float)
        if val.shape != pw.shape or not np.all(np.abs(val - pw) <= rtol * scale):
            i = int(np.argmax(np.abs(val - pw) / scale)) if val.shape == pw.shape else 0
            fails.append(fail("integrate_equals_points_and_weights", "monomial exponents %r: integrate() %r, sum of weights x values over get_points_and_weights() %r"
                              % (exps[i], val[i] if val.shape == pw.shape else val.shape, pw[i]), key))
    outcome = (len(pts), tuple(degs))
    # trapezoid: boundary points off == on minus global boundary points, same weights
    if name == "trapezoidal":
        gb = _grid(name, a, b, False)
        gb.setCurrentArea(np.array(s, dtype=float), np.array(e, dtype=float), list(lv))
        p0, w0 = gb.get_points_and_weights()
        got = {tuple(float(x) for x in p): float(ww) for p, ww in zip(p0, w0)}
        want = {p: float(ww) for p, ww in zip(pts, w) if not any(p[k] == a[k] or p[k] == b[k] for k in range(d))}
        n0 = int(np.prod(gb.levelToNumPoints(list(lv))))
        one_sided = any(lv[k] == 0 and ((s[k] == a[k]) != (e[k] == b[k])) for k in range(d))
        both_sided0 = any(lv[k] == 0 and s[k] == a[k] and e[k] == b[k] for k in range(d))
        k2 = dict(key, level0_one_sided=one_sided)
        if len(p0) != n0:
            fails.append(fail("boundary_off_announced_point_number", "%d points, %d announced" % (len(p0), n0), k2))
        if set(got) != set(want):
            fails.append(fail("boundary_off_points", "level %r box %r-%r: without boundary %r, expected %r" % (lv, s, e, sorted(got), sorted(want)), k2))
        elif any(not (abs(got[p] - want[p]) <= 1e-13) for p in want):
            fails.append(fail("boundary_off_weights", "level %r box %r-%r: weights %r expected %r" % (lv, s, e, sorted(got.items()), sorted(want.items())), k2))
        outcome += (len(p0),)
    elif name in ("simpson", "clenshaw_curtis", "leja") and min(lv) >= 1:
        # point contract with boundary points off: as many points as announced, all inside the sub-box, one weight per point and
        # dimension (a grid that refuses the request by an assertion is not wrong)
        gb = _grid(name, a, b, False)
        whole = all(s[k] == a[k] and e[k] == b[k] for k in range(d))
        k3 = dict(key, whole_domain=whole)
        try:
            gb.setCurrentArea(np.array(s, dtype=float), np.array(e, dtype=float), list(lv))
            p0 = [tuple(float(x) for x in p) for p in gb.getPoints()]
            n0 = int(np.prod(gb.levelToNumPoints(list(lv))))
            refused = False
        except AssertionError:
            refused, p0, n0 = True, [], 0
        if not refused:
            if len(p0) != n0:
                fails.append(fail("boundary_off_announced_point_number", "level %r box %r-%r: %d points, %d announced" % (lv, s, e, len(p0), n0), k3 if name == "leja" else key))
            if any(not (s[k] - tol * (1 + abs(s[k])) <= p[k] <= e[k] + tol * (1 + abs(e[k]))) for p in p0 for k in range(d)):
                fails.append(fail("boundary_off_points_inside_subbox", "points %r, box %r-%r" % (p0[:4], s, e), key))
            nw = [len(gb.weights[k]) for k in range(d)]
            nc = [len(gb.coordinate_array[k]) for k in range(d)]
            if nw != nc:
                fails.append(fail("boundary_off_one_weight_per_point", "level %r box %r-%r: %r points and %r weights per dimension" % (lv, s, e, nc, nw), k3))
        outcome += (len(p0), refused)
    return {"failures": fails, "canon": core.config_key(c), "outcome": outcome, "nontrivial": len(pts) > 1, "evals": len(exps) + 1}


def cases(tier):
    out = []
    doms = {1: [([0.0], [1.0]), ([-1.0], [3.0])], 2: [([0.0, 0.0], [1.0, 1.0]), ([-1.0, 2.0], [3.0, 4.0])]}
    for name in FAMILIES:
        for d in (1, 2):
            if d == 1:
                L = 4 if name not in ("leja",) else 4
            else:
                L = {"trapezoidal": 3 if tier == "quick" else 4, "simpson": 3, "clenshaw_curtis": 3 if tier != "quick" else 2,
                     "leja": 2 if tier == "quick" else 3, "gauss_legendre": 3}.get(name, 2 if tier == "quick" else 3)
            for a, b in doms[d]:
                boxes1 = [sub_boxes_1d(a[k], b[k], 2 if (d == 1 or tier != "quick" or name == "trapezoidal") else 1) for k in range(d)]
                for lv in itertools.product(range(0, L + 1), repeat=d):
                    for box in itertools.product(*boxes1):
                        out.append({"config": {"family": name, "d": d, "level": list(lv), "a": a, "b": b,
                                               "start": [x[0] for x in box], "end": [x[1] for x in box]}})
                # deeper levels in one dimension (behaviour that only starts at 33, 65, 129 points)
                if d == 1 and name not in ("leja",):
                    for lv in ((5,), (6,)) + (((7,),) if name in ("trapezoidal", "simpson", "clenshaw_curtis") else ()):
                        for box in itertools.product(*[sub_boxes_1d(a[0], b[0], 1)]):
                            out.append({"config": {"family": name, "d": 1, "level": list(lv), "a": a, "b": b,
                                                   "start": [x[0] for x in box], "end": [x[1] for x in box]}})
    # d = 3 (low levels): formulas that are only right in one and two dimensions
    a3, b3 = [0.0, -1.0, 2.0], [1.0, 3.0, 4.0]
    for name in ("trapezoidal", "simpson", "clenshaw_curtis", "gauss_legendre", "leja", "lagrange2", "bspline1"):
        L3 = 2 if name in ("trapezoidal", "simpson") else 1
        boxes1 = [sub_boxes_1d(a3[k], b3[k], 1) for k in range(3)]
        for lv in itertools.product(range(0, L3 + 1), repeat=3):
            if tier == "quick" and name not in ("trapezoidal",) and sorted(lv) != list(lv) and tuple(lv) not in ((2, 0, 1), (1, 2, 0), (2, 1, 0)):
                continue                     # quick: ascending level vectors (and three permutations of (0,1,2)) for the other families
            for box in itertools.product(*boxes1):
                out.append({"config": {"family": name, "d": 3, "level": list(lv), "a": a3, "b": b3,
                                       "start": [x[0] for x in box], "end": [x[1] for x in box]}})
    # a domain far from the origin (the distance of an inner sub-box from the global boundary is tiny relative to the coordinates):
    # the families with a boundary-off contract of the statement
    far = {1: ([1048576.0], [1048577.0]), 2: ([1048576.0, 0.0], [1048577.0, 1.0])}
    for d in (1, 2):
        a, b = far[d]
        boxes1 = [sub_boxes_1d(a[k], b[k], 2) for k in range(d)]
        for lv in itertools.product(range(0, 3 if d == 2 else 4), repeat=d):
            for box in itertools.product(*boxes1):
                out.append({"config": {"family": "trapezoidal", "d": d, "level": list(lv), "a": a, "b": b,
                                       "start": [x[0] for x in box], "end": [x[1] for x in box]}})
    # object reuse: all ordered pairs / triples of requests from a small menu on ONE grid object
    menu1 = [([1], [0.0], [1.0]), ([2], [0.0], [1.0]), ([2], [0.25], [0.5]), ([1], [0.5], [1.0]), ([3], [0.0], [0.5]), ([2], [0.5], [0.75]), ([0], [0.0], [0.5])]
    menu1b = [([lv[0]], [-1.0 + 4 * s[0]], [-1.0 + 4 * e[0]]) for lv, s, e in menu1]
    menu2 = [([1, 2], [0.0, 0.0], [1.0, 1.0]), ([2, 1], [0.5, 0.0], [1.0, 0.5]), ([2, 2], [0.25, 0.5], [0.5, 1.0]), ([1, 2], [0.0, 0.5], [0.5, 1.0])]
    for name in FAMILIES:
        for (a, b, menu) in (([0.0], [1.0], menu1), ([-1.0], [3.0], menu1b)):
            for n in (2, 3):
                if n == 3 and tier == "quick" and name not in ("leja", "clenshaw_curtis", "trapezoidal"):
                    continue
                for seq in itertools.product(menu, repeat=n):
                    out.append({"config": {"kind": "reuse", "family": name, "d": 1, "a": a, "b": b, "requests": [list(x) for x in seq]}})
        for seq in itertools.product(menu2, repeat=2):
            out.append({"config": {"kind": "reuse", "family": name, "d": 2, "a": [0.0, 0.0], "b": [1.0, 1.0], "requests": [list(x) for x in seq]}})
        # the same pairs with caller-owned start / end / level objects that are overwritten in place between the requests
        for seq in itertools.product(menu1b, repeat=2):
            out.append({"config": {"kind": "reuse", "family": name, "d": 1, "a": [-1.0], "b": [3.0], "requests": [list(x) for x in seq], "caller_arrays": "inplace"}})
        for seq in itertools.product(menu2, repeat=2):
            out.append({"config": {"kind": "reuse", "family": name, "d": 2, "a": [0.0, 0.0], "b": [1.0, 1.0], "requests": [list(x) for x in seq], "caller_arrays": "inplace"}})
        if name in ("trapezoidal", "simpson", "clenshaw_curtis"):
            # same object, boundary flag toggled between requests (levels >= 1; the families whose boundary-off mode is supported)
            m1 = [r for r in menu1 if r[0][0] >= 1]
            for seq in itertools.product(m1, repeat=2):
                for flags in ((True, False), (False, True), (False, False)):
                    out.append({"config": {"kind": "reuse", "family": name, "d": 1, "a": [0.0], "b": [1.0], "requests": [list(x) for x in seq],
                                           "boundary_flags": list(flags)}})
            for seq in itertools.product(menu2, repeat=2):
                out.append({"config": {"kind": "reuse", "family": name, "d": 2, "a": [0.0, 0.0], "b": [1.0, 1.0], "requests": [list(x) for x in seq],
                                       "boundary_flags": [True, False]}})
    # refused requests between valid ones (exception caught by the caller), on objects constructed with and without boundary points
    for name in ("trapezoidal", "simpson", "clenshaw_curtis", "gauss_legendre"):
        for bc in (None, False):
            if bc is False and name == "gauss_legendre":
                continue
            for kind in ("level_vector_too_long", "integrate_level_vector_too_long", "count_with_boundary", "area_of_wrong_dimension"):
                m2 = [r for r in menu2 if min(r[0]) >= 1][:3]
                for first in [None] + m2:
                    for second in m2:
                        reqs = ([list(first)] if first else []) + [["refuse", kind], list(second)]
                        cfg = {"kind": "reuse", "family": name, "d": 2, "a": [0.0, 0.0], "b": [1.0, 1.0], "requests": reqs}
                        if bc is False:
                            cfg["boundary_constructed"] = False
                        out.append({"config": cfg})
    # grids whose dimensions differ: MixedGrid of different 1D families, and per-dimension boundary flags switched through set_boundaries;
    # every ordered pair of requests on one object, on an anisotropic shifted box
    am, bm = [-1.0, 2.0], [3.0, 4.0]
    menu2m = [(lv, [am[k] + (bm[k] - am[k]) * s[k] for k in range(2)], [am[k] + (bm[k] - am[k]) * e[k] for k in range(2)]) for lv, s, e in menu2] \
        + [([2, 3], [1.0, 2.5], [2.0, 3.0])]
    mixes = [(("trapezoidal", "gauss_legendre"), (True, False)), (("gauss_legendre", "trapezoidal"), (False, True)),
             (("trapezoidal", "gauss_legendre"), (False, False)), (("trapezoidal", "clenshaw_curtis"), (True, True)),
             (("simpson", "leja"), (True, True)), (("clenshaw_curtis", "simpson"), (True, True)), (("leja", "trapezoidal"), (True, False)),
             (("trapezoidal", "trapezoidal"), (True, False)), (("trapezoidal", "trapezoidal"), (False, True))]
    for fams, flags in mixes:
        for seq in itertools.product(menu2m, repeat=2):
            out.append({"config": {"kind": "mixed", "build": "mixed", "family": "mixed", "d": 2, "families": list(fams), "flags": list(flags),
                                   "a": am, "b": bm, "requests": [list(x) for x in seq]}})
    for flags in ((True, False), (False, True), (False, False)):
        for seq in itertools.product(menu2m, repeat=2):
            out.append({"config": {"kind": "mixed", "build": "flags", "family": "mixed", "d": 2, "families": ["trapezoidal", "trapezoidal"],
                                   "flags": list(flags), "a": am, "b": bm, "requests": [list(x) for x in seq]}})
    return out


def main(ctx):
    cs = cases(ctx.tier)
    ctx.determinism_probe(cs[len(cs) // 3])
    results = ctx.map(cs)
    for case, res in zip(cs, results):
        ctx.absorb(case, res, group=case["config"]["family"] + ("_reuse" if case["config"].get("kind") == "reuse" else "") + "_d%d" % case["config"]["d"])
    for i in (5, len(cs) // 3, len(cs) - 7):
        ctx.add_sample({"case": cs[i], "outcome": results[i]["outcome"]})
    ctx.bounds = {"cases": len(cs), "families": FAMILIES}
    return ctx.finish(
        rule="complete lattice family x d(1,2) x level vector {0..L}^d x dyadic sub-boxes (k<=2; quick: k<=1 in 2D except trapezoid) of "
             "[0,1]^d and [-1,3](x[2,4]); every tensor monomial up to the nominal degree per dimension is one obligation "
             "(evaluations); in addition every ordered pair (and triple) of requests from a menu of 7 (level, sub-box) requests is served by ONE "
             "grid object and compared with fresh objects (object-reuse transparency); non-trivial = grid with more than one point",
        assumptions=["nominal degrees as in the statement (trapezoid 1, Simpson 3 (1 with two points), CC/Leja n-1, Gauss 2n-1, "
                     "Lagrange/B-spline min(p,n-1)) with n = announced points per dimension",
                     "first sentence demanded with boundary points on (Gauss has none); weights-sum not demanded for the hierarchical "
                     "families, whose weights are basis integrals (degree-0 exactness covers it)",
                     "relative tolerance 1e-11 (1e-9 for Leja and the hierarchical families, which solve linear systems)"])
