"""C17 - density-estimation caching and size-dependent code paths are transparent.

Lock-step exploration: for every refinement-decision history (BFS over the real dimension-wise strategy, scripted
estimator) and every uniform combination, the SAME data / history is run on several real instances that differ only
in `reuse_old_values` (on/off) and in the internal size threshold (moved with the SPARSESPACE_VERIF hook to 0, 8 and
left at 200, so that both the small-grid and the large-grid implementations run on the same small grids).  After the
history all surpluses, the scheme and the interpolated densities on a lattice must agree.
"""
import itertools

import numpy as np

from mc import core, dw
from mc.core import fail

PID = "C17"
LATTICE = [(x, y) for x in (0.05, 0.25, 1 / 3, 0.5, 0.77, 0.95) for y in (0.05, 0.125, 0.5, 0.6, 0.95)]

DATA = {
    "mixed": (np.array([[0.3, 0.77], [0.5, 0.25], [0.05, 0.9], [0.125, 0.5], [0.6, 0.6], [0.31, 0.8], [0.9, 0.1]]),
              np.array([1, -1, 1, -0.5, 1, -0.5, 1.0])),
    "gridlines": (np.array([[0.25, 0.25], [0.5, 0.5], [0.75, 0.5], [0.5, 0.125], [0.25, 0.75], [0.375, 0.625]]),
                  np.array([1, 1, -1, -1, 1, -1.0])),
    "cluster": (np.array([[0.41, 0.4], [0.42, 0.38], [0.39, 0.45], [0.44, 0.41], [0.8, 0.82], [0.79, 0.85], [0.83, 0.8], [0.4, 0.43]]),
                np.array([1, 1, 1, 1, -1, -1, -1, 1.0])),
    "single": (np.array([[0.3, 0.3]]), np.array([1.0])),
}
# three-dimensional data (standard combination only): index arithmetic that is only right in one and two dimensions
DATA3 = {
    "mixed3": (np.array([[0.3, 0.77, 0.2], [0.5, 0.25, 0.6], [0.05, 0.9, 0.45], [0.125, 0.5, 0.8], [0.6, 0.6, 0.1], [0.31, 0.8, 0.9], [0.9, 0.1, 0.5]]),
               np.array([1, -1, 1, -0.5, 1, -0.5, 1.0])),
}
LATTICE3 = [(x, y, z) for x in (0.05, 1 / 3, 0.77) for y in (0.125, 0.5, 0.95) for z in (0.05, 0.6, 0.9)]


def _classes(name, mode):
    X, y = DATA[name] if name in DATA else DATA3[name]
    if mode == "none":
        return None
    if mode == "pm1":
        return np.sign(y)
    return y.copy()      # fractional one-vs-others style labels


def _set_threshold(v):
    import sparseSpACE.GridOperation as GO
    GO._VERIF_DE_THRESHOLD = v


VARIANTS = [(False, None), (True, None), (False, 0), (True, 0), (False, 8), (True, 8)]


def _run_dw(c, history, reuse, thr, interp_each_step=True):
    from sparseSpACE.GridOperation import DensityEstimation
    from sparseSpACE.Grid import GlobalTrapezoidalGrid
    X, _ = DATA[c["data"]] if c["data"] in DATA else DATA3[c["data"]]
    d = X.shape[1]
    LAT = LATTICE if d == 2 else LATTICE3
    a, b = np.zeros(d), np.ones(d)
    cls = _classes(c["data"], c["labels"])
    _set_threshold(thr)
    try:
        bnd = bool(c.get("boundary", False))
        grid = GlobalTrapezoidalGrid(a=a, b=b, modified_basis=False, boundary=bnd)
        op = DensityEstimation(X.copy(), d, grid=grid, masslumping=False, lambd=c["lambda"], classes=None if cls is None else cls.copy(),
                               reuse_old_values=reuse, numeric_calculation=False, print_output=False, pre_scaled_data=True,
                               print_level=1000, log_level=1000)
        cfg = {"d": d, "lmin": c.get("lmin", 1), "lmax": c["lmax"], "version": 6, "rebalancing": False, "boundary": bnd}
        # the density is also interpolated after EVERY evaluation (as a user monitoring the refinement would): caches filled by an
        # earlier interpolation must not leak into a later one
        obs = (lambda run: run.sa(LAT)) if interp_each_step else None
        r = dw.build(cfg, history, None, None, grid=grid, operation=op, observer=obs)
        sa = r.sa
        sur = {tuple(int(x) for x in comp.levelvector): np.array(op.surpluses[tuple(comp.levelvector)], dtype=float).copy() for comp in sa.scheme}
        scheme = tuple(sorted((tuple(int(x) for x in comp.levelvector), float(comp.coefficient)) for comp in sa.scheme))
        dens = np.asarray(sa(LAT), dtype=float).copy()
    finally:
        _set_threshold(None)
    return sa, sur, scheme, dens


def _compare(base, other, what, key, fails):
    _, sur0, sch0, den0 = base
    _, sur1, sch1, den1 = other
    if sch0 != sch1:
        fails.append(fail("scheme_differs", "%s: %r vs %r" % (what, sch0, sch1), key))
        return
    for lv in sur0:
        a, b = sur0[lv], sur1.get(lv)
        if b is None or a.shape != b.shape:
            fails.append(fail("surpluses_differ", "%s: component %r shapes %r vs %r" % (what, lv, a.shape, None if b is None else b.shape), key))
            return
        sc = max(1.0, float(np.max(np.abs(a))))
        if not (float(np.max(np.abs(a - b))) <= 1e-9 * sc):
            i = int(np.argmax(np.abs(a - b)))
            fails.append(fail("surpluses_differ", "%s: component %r entry %d: %r vs %r" % (what, lv, i, a.ravel()[i], b.ravel()[i]), key))
            return
    sc = max(1.0, float(np.max(np.abs(den0))))
    if den0.shape != den1.shape or not (float(np.max(np.abs(den0 - den1))) <= 1e-9 * sc):
        i = int(np.argmax(np.max(np.abs(den0 - den1), axis=1))) if den0.shape == den1.shape else 0
        fails.append(fail("densities_differ", "%s: at %r: %r vs %r" % (what, (LATTICE3 if len(den0) == len(LATTICE3) else LATTICE)[i], den0[i].tolist(), den1[i].tolist() if den0.shape == den1.shape else den1.shape), key))


def _dw_case(case):
    c, history = case["config"], case["history"]
    fails = []
    base = _run_dw(c, history, False, None, interp_each_step=False)
    for reuse, thr in VARIANTS:
        # rhs_reuse_branch: the right-hand side of a refined grid is assembled from the previous step's vector (only reachable
        # with reuse on, a previous step, and a grid at or above the size threshold)
        key = {"grid": "dimension-wise", "reuse": reuse, "threshold": "natural" if thr is None else "lowered",
               "rhs_reuse_branch": bool(reuse and thr is not None and len(history) > 0)}
        if c.get("boundary"):
            key["boundary"] = True
        other = _run_dw(c, history, reuse, thr)
        _compare(base, other, "reuse=%s threshold=%s (density interpolated after every step) vs reuse=False threshold=200 (interpolated once)" % (reuse, thr), key, fails)
    sa = base[0]
    out = {"failures": fails, "canon": dw.canon(sa), "nontrivial": len(history) > 0,
           "outcome": tuple(round(float(x), 8) for x in base[3].ravel()[:3]), "evals": len(VARIANTS) + 1}
    if case.get("want_events", False):
        out["events"] = dw.events_for(sa, c)
    return out


def _run_uniform(c, reuse, thr):
    from sparseSpACE.GridOperation import DensityEstimation
    from sparseSpACE.StandardCombi import StandardCombi
    d = 3 if c["data"] in DATA3 else 2
    X, _ = DATA3[c["data"]] if d == 3 else DATA[c["data"]]
    LAT = LATTICE3 if d == 3 else LATTICE
    cls = _classes(c["data"], c["labels"])
    _set_threshold(thr)
    try:
        op = DensityEstimation(X.copy(), d, masslumping=c["masslumping"], lambd=c["lambda"], classes=None if cls is None else cls.copy(),
                               reuse_old_values=reuse, print_output=False, pre_scaled_data=True, print_level=1000, log_level=1000)
        combi = StandardCombi(np.zeros(d), np.ones(d), operation=op, print_output=False, print_level=1000, log_level=1000)
        combi.perform_operation(c["lmin"], c["lmax"])
        sur = {tuple(int(x) for x in comp.levelvector): np.array(op.surpluses[tuple(comp.levelvector)], dtype=float).copy() for comp in combi.scheme}
        scheme = tuple(sorted((tuple(int(x) for x in comp.levelvector), float(comp.coefficient)) for comp in combi.scheme))
        dens = np.asarray(combi(LAT), dtype=float).copy()
        # a second evaluation on the same instance (everything cached now) must not change anything
        combi.perform_operation(c["lmin"], c["lmax"])
        dens2 = np.asarray(combi(LAT), dtype=float).copy()
    finally:
        _set_threshold(None)
    return combi, sur, scheme, dens, dens2


def _uniform_case(case):
    c = case["config"]
    fails = []
    base = _run_uniform(c, False, None)
    for reuse, thr in VARIANTS[1:]:
        key = {"grid": "uniform", "reuse": reuse, "threshold": "natural" if thr is None else str(thr), "labels": c["labels"]}
        other = _run_uniform(c, reuse, thr)
        _compare(base[:4], other[:4], "reuse=%s threshold=%s vs reuse=False threshold=200" % (reuse, thr), key, fails)
        sc = max(1.0, float(np.max(np.abs(other[3]))))
        if not (float(np.max(np.abs(other[3] - other[4]))) <= 1e-9 * sc):
            fails.append(fail("second_evaluation_differs", "reuse=%s threshold=%s: densities change when the operation is performed again" % (reuse, thr), key))
    return {"failures": fails, "canon": core.config_key(c), "nontrivial": True, "outcome": tuple(round(float(x), 8) for x in base[3].ravel()[:3]),
            "evals": len(VARIANTS)}


def _natural_case(case):
    """no hook: grids with >= 200 points so that the large-grid implementations run at their natural size"""
    c, history = case["config"], case["history"]
    cc = dict(c, lmax=c["lmax"])
    fails = []

    def run(reuse):
        from sparseSpACE.GridOperation import DensityEstimation
        from sparseSpACE.Grid import GlobalTrapezoidalGrid
        d = 2
        X, _ = DATA[c["data"]]
        cls = _classes(c["data"], c["labels"])
        grid = GlobalTrapezoidalGrid(a=np.zeros(d), b=np.ones(d), modified_basis=False, boundary=False)
        op = DensityEstimation(X.copy(), d, grid=grid, masslumping=False, lambd=c["lambda"], classes=None if cls is None else cls.copy(),
                               reuse_old_values=reuse, numeric_calculation=False, print_output=False, pre_scaled_data=True,
                               print_level=1000, log_level=1000)
        cfg = {"d": d, "lmin": c["lmin"], "lmax": c["lmax"], "version": 6, "rebalancing": False, "boundary": False}
        r = dw.build(cfg, history, None, None, grid=grid, operation=op)
        sa = r.sa
        sur = {tuple(int(x) for x in comp.levelvector): np.array(op.surpluses[tuple(comp.levelvector)], dtype=float).copy() for comp in sa.scheme}
        scheme = tuple(sorted((tuple(int(x) for x in comp.levelvector), float(comp.coefficient)) for comp in sa.scheme))
        return sa, sur, scheme, np.asarray(sa(LATTICE), dtype=float).copy()
    base, other = run(False), run(True)
    key = {"grid": "dimension-wise", "reuse": True, "threshold": "natural_large_grid", "rhs_reuse_branch": len(history) > 0}
    _compare(base, other, "reuse=True vs reuse=False at natural size", key, fails)
    return {"failures": fails, "canon": core.config_key(c) + str(history), "nontrivial": True, "outcome": len(base[1]), "evals": 2}


def _sweep_case(case):
    """several estimation problems (different lambda / data / labels) are solved one after the other in ONE process, each with completely
    fresh objects - a parameter sweep.  For every element of the sequence the instance with reuse on must agree with the instance with
    reuse off, and with what the same problem gives when it is the first one of the sequence (nothing may survive from the earlier
    objects)."""
    seq, history = case["config"]["sequence"], case["history"]
    fails = []
    firsts = {}
    for pos, c in enumerate(seq):
        key = {"grid": c["kind"], "oracle_kind": "sequence_of_fresh_objects"}
        if c["kind"] == "dw":
            base = _run_dw(c, history, False, None, interp_each_step=False)
            other = _run_dw(c, history, True, None)
        else:
            base = _run_uniform(c, False, None)[:4]
            other = _run_uniform(c, True, None)[:4]
        _compare(base, other, "problem %d of the sequence %r: reuse=True vs reuse=False" % (pos, [(x["data"], x["labels"], x["lambda"]) for x in seq]), key, fails)
        ck = core.config_key(c)
        if ck in firsts:
            _compare(firsts[ck], base, "problem %d of the sequence: same problem solved earlier in the sequence" % pos, key, fails)
        else:
            firsts[ck] = base
        if fails:
            break
    return {"failures": fails, "canon": core.config_key(case["config"]) + str(history), "nontrivial": True, "outcome": len(seq), "evals": 2 * len(seq)}


def run_case(case):
    if case["config"]["kind"] == "sweep":
        return _sweep_case(case)
    if case["config"]["kind"] == "dw":
        return _dw_case(case)
    if case["config"]["kind"] == "natural":
        return _natural_case(case)
    return _uniform_case(case)


def main(ctx):
    import sparseSpACE.GridOperation as GO
    if not hasattr(GO, "_verif_threshold"):
        raise core.HarnessError("the SPARSESPACE_VERIF threshold hook is missing from sparseSpACE/GridOperation.py")
    q = ctx.tier == "quick"
    ctx.determinism_probe({"config": {"kind": "dw", "data": "mixed", "labels": "frac", "lambda": 0.01, "lmax": 2, "s": 1},
                           "history": [[[0, 0.0, 0.25]], [[1, 0.5, 0.75]]]})
    # dimension-wise histories
    menu = [("mixed", "none", 0.0, 2, 2, 2 if not q else 1), ("mixed", "frac", 0.01, 2, 2, 1), ("gridlines", "pm1", 0.0, 2, 2, 1),
            ("cluster", "none", 0.01, 3, 1 if q else 2, 1), ("single", "none", 0.01, 2, 2, 1), ("gridlines", "none", 0.0, 2, 3 if not q else 2, 1),
            ("cluster", "pm1", 0.0, 2, 2, 1)]
    for data, labels, lam, lmax, D, s in menu:
        cfg = {"kind": "dw", "data": data, "labels": labels, "lambda": lam, "lmax": lmax, "s": s}
        tag = "dw_%s_%s_lam%s_lmax%d_D%d_s%d" % (data, labels, lam, lmax, D, s)
        ctx.bounds[tag] = core.bfs(ctx, cfg, D, tag=tag)
    # graded refinement towards a point: deeper histories (levels 5..7 in one corner, coarse elsewhere) with few events per state
    for data, labels, lam, D in (("mixed", "frac", 0.01, 4 if q else 6), ("cluster", "none", 0.0, 3 if q else 5)):
        cfg = {"kind": "dw", "data": data, "labels": labels, "lambda": lam, "lmax": 2, "s": 1, "towards": [[0.31, 0.8]]}
        tag = "dw_graded_%s_%s_lam%s_D%d" % (data, labels, lam, D)
        ctx.bounds[tag] = core.bfs(ctx, cfg, D, tag=tag)
    # grids WITH boundary points (position 0 is a real grid point in the large-grid index arithmetic)
    for data, labels, lam, lmax, D, s in [("mixed", "none", 0.01, 2, 2 if q else 3, 1), ("gridlines", "pm1", 0.0, 2, 1 if q else 2, 1)]:
        cfg = {"kind": "dw", "data": data, "labels": labels, "lambda": lam, "lmax": lmax, "s": s, "boundary": True}
        tag = "dw_boundary_%s_%s_lam%s_lmax%d_D%d_s%d" % (data, labels, lam, lmax, D, s)
        ctx.bounds[tag] = core.bfs(ctx, cfg, D, tag=tag)
    # three-dimensional dimension-wise grids: component grids with two or more inner points in EVERY dimension (pairs of points that
    # differ in all three coordinates; strides / bands that are only right in two dimensions).  lmax - lmin = 3 puts (2,2,2) into the
    # initial scheme; the graded histories reach non-uniform grids of that kind from (1,3)
    for data, labels, lam, lmin, lmax, D, tw in [("mixed3", "frac", 0.01, 1, 4, 1, None), ("mixed3", "none", 0.0, 1, 3, 2 if q else 3, [[0.31, 0.8, 0.55]])]:
        cfg = {"kind": "dw", "data": data, "labels": labels, "lambda": lam, "lmin": lmin, "lmax": lmax, "s": 1}
        if tw:
            cfg["towards"] = tw
        tag = "dw3d_%s_%s_lam%s_l%d%d_D%d%s" % (data, labels, lam, lmin, lmax, D, "_towards" if tw else "")
        ctx.bounds[tag] = core.bfs(ctx, cfg, D, tag=tag)
    # uniform combinations
    cases = []
    for data in DATA:
        for labels in ("none", "pm1", "frac"):
            for lam in (0.0, 0.01):
                for (lmin, lmax) in ((1, 2), (1, 3), (2, 3)) + (() if q else ((1, 4), (2, 4))):
                    for lump in (False, True):
                        if lump and (labels != "none" or lam != 0.0):
                            continue
                        cases.append({"config": {"kind": "uniform", "data": data, "labels": labels, "lambda": lam, "lmin": lmin, "lmax": lmax,
                                                 "masslumping": lump}})
    for labels, lam in (("none", 0.01), ("pm1", 0.0)):
        for (lmin, lmax) in ((1, 2), (1, 3)) + (() if q else ((2, 3), (1, 4))):
            cases.append({"config": {"kind": "uniform", "data": "mixed3", "labels": labels, "lambda": lam, "lmin": lmin, "lmax": lmax, "masslumping": False}})
    for case, res in zip(cases, ctx.map(cases, chunksize=1)):
        ctx.absorb(case, res, group="uniform")
    ctx.add_sample(cases[0])
    # natural size (no hook): component grids with 225..480 points
    nat = [{"config": {"kind": "natural", "data": "mixed", "labels": "none", "lambda": 0.01, "lmin": 4, "lmax": 5}, "history": h}
           for h in ([], [[[0, 0.0, 1 / 32]]])]
    if not q:
        nat += [{"config": {"kind": "natural", "data": "cluster", "labels": "pm1", "lambda": 0.0, "lmin": 4, "lmax": 5}, "history": h}
                for h in ([[[1, 0.5, 0.5 + 1 / 32]]], [[[0, 0.0, 1 / 32]], [[1, 0.0, 1 / 32]]])]
    for case, res in zip(nat, ctx.map(nat, chunksize=1)):
        ctx.absorb(case, res, group="natural_size")
    # parameter sweeps: every ordered pair (and the triples that return to the first problem) of a small menu of problems, solved with
    # fresh objects one after the other in one process
    pm = [{"kind": "dw", "data": "mixed", "labels": "frac", "lambda": 0.1, "lmax": 2}, {"kind": "dw", "data": "mixed", "labels": "frac", "lambda": 0.001, "lmax": 2},
          {"kind": "dw", "data": "mixed", "labels": "frac", "lambda": 0.0, "lmax": 2}, {"kind": "dw", "data": "cluster", "labels": "none", "lambda": 0.1, "lmax": 2},
          {"kind": "dw", "data": "mixed", "labels": "none", "lambda": 0.001, "lmax": 2, "boundary": True}]
    um = [{"kind": "uniform", "data": "mixed", "labels": "pm1", "lambda": lam, "lmin": 1, "lmax": 3, "masslumping": False} for lam in (0.1, 0.0)] + \
         [{"kind": "uniform", "data": "cluster", "labels": "none", "lambda": 0.1, "lmin": 1, "lmax": 3, "masslumping": False}]
    sweeps = []
    hist = [[[0, 0.0, 0.25]], [[1, 0.5, 0.75], [0, 0.0, 0.125]]]
    for menu_ in (pm, um):
        for x, y in itertools.permutations(menu_, 2):
            sweeps.append({"config": {"kind": "sweep", "sequence": [x, y]}, "history": hist})
            sweeps.append({"config": {"kind": "sweep", "sequence": [x, y, x]}, "history": hist})
    for x in pm[:2]:
        for y in um[:2]:
            sweeps.append({"config": {"kind": "sweep", "sequence": [x, y, x]}, "history": hist})
            sweeps.append({"config": {"kind": "sweep", "sequence": [y, x, y]}, "history": hist})
    for case, res in zip(sweeps, ctx.map(sweeps, chunksize=1)):
        ctx.absorb(case, res, group="sweep")
    ctx.bounds["sweep_sequences"] = len(sweeps)
    ctx.bounds["natural_size_cases"] = len(nat)
    ctx.bounds["uniform_cases"] = len(cases)
    ctx.bounds["variants_per_case"] = [list(map(str, v)) for v in VARIANTS]
    return ctx.finish(
        rule="dimension-wise: BFS over refinement-decision histories (scripted estimator, real loop); uniform: lattice data x labels x "
             "lambda x level range x mass lumping; EVERY state/case is executed on 6 real instances (reuse on/off x threshold 200/0/8) and "
             "compared with the reuse-off / natural-threshold instance (evaluations = instances run)",
        assumptions=["d=2 (two dimension-wise configurations and the mixed3 standard combinations: d=3), data in the unit cube (pre_scaled_data), GlobalTrapezoidalGrid without (and, for two configurations, with) boundary points, rebalancing off",
                     "size threshold moved through the guarded hook sparseSpACE.GridOperation._VERIF_DE_THRESHOLD (SPARSESPACE_VERIF=1)",
                     "agreement tolerance 1e-9 relative"])
