"""C13 - the adaptive driver honours its stopping rules and reports truthful numbers.

Exhaustive lattice of limit configurations around the boundary cases of every run: for each strategy, integrand and
norm an unlimited baseline run yields the point counts n_k; then every combination of tol x min_evaluations x
max_evaluations from menus built out of those n_k (limits already met at the first evaluation, exactly on, one above
...) is executed on the real loop with the real estimator and compared step by step with a 15-line reference model of
the loop.
"""
import itertools
import math

import numpy as np
from numpy import linalg as LA

import contextlib

from mc import core, clock
from mc.core import fail

PID = "C13"
LV = 1000
D = 2
A, B = np.zeros(D), np.ones(D)


def _integrand(kind):
    from sparseSpACE import Function as F
    if kind == "peak":
        base = F.GenzProductPeak([20.0, 1.0], [0.35, 0.5])
        return (lambda x: [base.eval(x)]), np.array([base.getAnalyticSolutionIntegral(A, B)])
    if kind == "vec":
        g1, g2 = F.GenzGaussian([0.3, 0.6], [5.0, 3.0]), F.GenzCornerPeak([1.0, 2.0])
        return (lambda x: [g1.eval(x), g2.eval(x)]), np.array([g1.getAnalyticSolutionIntegral(A, B), g2.getAnalyticSolutionIntegral(A, B)])
    if kind == "zero":
        return (lambda x: [math.sin(2 * math.pi * x[0]) * math.exp(x[1])]), np.array([0.0])
    if kind == "disc":
        g = F.GenzDiscontinious([2.0, 1.0], [0.4, 0.7])
        return (lambda x: [g.eval(x)]), np.array([g.getAnalyticSolutionIntegral(A, B)])
    if kind == "c0":
        g = F.GenzC0([3.0, 6.0], [0.3, 0.8])
        return (lambda x: [g.eval(x)]), np.array([g.getAnalyticSolutionIntegral(A, B)])
    if kind == "vec3":
        g1, g2 = F.GenzProductPeak([10.0, 10.0], [0.7, 0.2]), F.GenzOszillatory([3.0, 1.0], 0.25)
        return (lambda x: [g1.eval(x), g2.eval(x), 1.0 + x[0]]), np.array([g1.getAnalyticSolutionIntegral(A, B), g2.getAnalyticSolutionIntegral(A, B), 1.5])
    if kind == "lin_off":          # a linear integrand (integrated exactly, every surplus / benefit exactly zero) against a reference the
        # user rounded: the error stays above every small tolerance although no refinement candidate has a positive benefit
        return (lambda x: [x[0] + 2.0 * x[1]]), np.array([1.501])
    if kind == "zero_on_grid":     # vanishes exactly at every dyadic point up to level 3: the first evaluations see the zero function
        g = lambda t: (8.0 * t - math.floor(8.0 * t)) * (1.0 - (8.0 * t - math.floor(8.0 * t)))
        return (lambda x: [g(x[0]) + g(x[1])]), np.array([1.0 / 3.0])
    if kind == "peak_tiny":        # same integrand scaled by an exact power of two: a reference of tiny magnitude is still non-zero
        ev, ref = _integrand("peak")
        return (lambda x: [2.0 ** -32 * v for v in ev(x)]), ref * 2.0 ** -32
    if kind == "vec_scaled":       # components of wildly different magnitude
        ev, ref = _integrand("vec")
        sc = np.array([2.0 ** -34, 2.0 ** 20])
        return (lambda x: [a * b for a, b in zip(sc, ev(x))]), ref * sc
    raise ValueError(kind)


def _make(strat, kind, norm, with_reference=True):
    from sparseSpACE.spatiallyAdaptiveSingleDimension2 import SpatiallyAdaptiveSingleDimensions2
    from sparseSpACE.spatiallyAdaptiveExtendSplit import SpatiallyAdaptiveExtendScheme
    from sparseSpACE.spatiallyAdaptiveCell import SpatiallyAdaptiveCellScheme
    from sparseSpACE.GridOperation import Integration
    from sparseSpACE.Grid import GlobalTrapezoidalGrid, TrapezoidalGrid, GaussLegendreGrid
    from sparseSpACE.Function import CustomFunction
    from sparseSpACE import ErrorCalculator as E
    ev, ref = _integrand(kind)
    refsol = ref if with_reference else None      # without a reference the driver works on the surplus error estimates alone
    seen = set()

    def wrapped(x):
        seen.add(tuple(float(v) for v in x))
        return ev(x)
    f = CustomFunction(wrapped, output_length=len(ref))
    nrm = np.inf if norm == "inf" else norm
    if strat.startswith("dw"):
        grid = GlobalTrapezoidalGrid(A, B, boundary=True)
        op = Integration(f, grid=grid, dim=D, reference_solution=refsol)
        sa = SpatiallyAdaptiveSingleDimensions2(A, B, operation=op, norm=nrm, rebalancing=(strat != "dw_noreb"),
                                                print_level=LV, log_level=LV)
        eo, lm = E.ErrorCalculatorSingleDimVolumeGuided(), (1, 2)
    elif strat.startswith("es"):
        # es_gl*: a non-nested grid family (points of coarser grids are not re-used); *_recalc: periodic from-scratch recalculation
        if strat.startswith("es_lag"):       # hierarchical high-order local grid, three splits before an extend
            from sparseSpACE.Grid import LagrangeGrid
            grid = LagrangeGrid(A, B, boundary=True, p=2)
        else:
            grid = GaussLegendreGrid(A, B) if strat.startswith("es_gl") else TrapezoidalGrid(A, B, boundary=True)
        op = Integration(f, grid=grid, dim=D, reference_solution=refsol)
        sa = SpatiallyAdaptiveExtendScheme(A, B, operation=op, norm=nrm, version={"es_v1": 1}.get(strat, 0),
                                           automatic_extend_split=(strat == "es_auto"),
                                           number_of_refinements_before_extend=3 if strat.startswith("es_lag") else 1)
        eo, lm = E.ErrorCalculatorExtendSplit(), (1, 2)
        if strat.endswith("_recalc"):
            sa.refinements_for_recalculate = 7 if strat.startswith("es_lag") else 2       # the library default (100) is out of reach of a bounded run
    else:
        grid = TrapezoidalGrid(A, B, boundary=True)
        op = Integration(f, grid=grid, dim=D, reference_solution=refsol)
        sa = SpatiallyAdaptiveCellScheme(A, B, operation=op, norm=nrm)
        eo, lm = E.ErrorCalculatorSurplusCell(), (2, 2)
    sa.log_util.set_print_level(LV)
    sa.log_util.set_log_level(LV)
    return sa, eo, lm, op, ref, seen, nrm


def _objects(sa):
    r = sa.refinement
    if hasattr(r, "refinementContainers"):
        return [o for c in r.refinementContainers for o in c.get_objects()]
    return r.get_objects()


def _continue_case(case):
    """two-phase run: performSpatiallyAdaptiv with (tol1, max1), then continue_adaptive_refinement with (tol2, max2); the second
    phase must obey the stopping rule with ITS limits (first evaluation of the continuation = re-evaluation of the reached state)"""
    c = case["config"]
    strat, kind, norm = c["strategy"], c["integrand"], c["norm"]
    key = {"strategy": strat.split("_")[0], "phase": "continuation"}
    sa, eo, lm, op, ref, seen, nrm = _make(strat, kind, norm)
    results = []
    oe = sa.evaluate_operation

    def ev_wrap():
        if len(results) > c.get("horizon", 40):
            # (a continuation without a point limit can only end by its tolerance: a driver that ignores it would never return)
            raise core.HarnessError("horizon: more than %d evaluations in a two-phase run (three times the unlimited baseline)" % c.get("horizon", 40))
        r = oe()
        results.append(np.array(op.get_result(), dtype=float).copy())
        return r
    sa.evaluate_operation = ev_wrap
    # reeval: the first phase asks for a from-scratch re-evaluation at its end (the continuation must still report truthful errors)
    kw1 = {"reevaluate_at_end": True} if c.get("reeval_first") else {}
    R1 = sa.performSpatiallyAdaptiv(lm[0], lm[1], eo, tol=c["tol"], max_evaluations=c["max_evaluations"], min_evaluations=1, print_output=False, **kw1)
    n1 = len(R1[6])
    results = results[:n1]        # evaluations of the loop only (the re-evaluation at the end is not an entry of the history arrays)
    t2, m2 = c["then"]["tol"], c["then"]["max_evaluations"]
    try:
        R2 = sa.continue_adaptive_refinement(tol=t2, max_evaluations=m2)
    except core.HarnessError as e:
        return {"failures": [fail("stop_index", "continuation with tol %r max %r after a run with tol %r max %r (%d evaluations) does not stop: %s"
                                  % (t2, m2, c["tol"], c["max_evaluations"], n1, e), dict(key, continuation_never_stops=True))],
                "canon": core.config_key(c), "outcome": (n1, "no stop"), "nontrivial": True, "evals": len(results)}
    errs, pts = list(R2[5]), list(R2[6])
    fails = []
    if c.get("reeval_first"):
        key = dict(key, reevaluated_first=True)
    if len(errs) != len(pts) or len(pts) <= n1:
        fails.append(fail("array_lengths", "after the continuation: %d errors, %d point counts, %d before" % (len(errs), len(pts), n1), key))
        return {"failures": fails, "canon": core.config_key(c), "outcome": (n1, len(pts)), "nontrivial": True, "evals": len(pts)}
    stop = None
    for k in range(n1, len(pts)):
        if (errs[k] <= t2 and pts[k] >= 1) or (m2 is not None and pts[k] > m2):
            stop = k
            break
    if stop != len(pts) - 1:
        fails.append(fail("stop_index", "continuation with tol %r max %r after a run with tol %r max %r: model stops at evaluation %r, run ended at %d; errors %r points %r"
                          % (t2, m2, c["tol"], c["max_evaluations"], stop, len(pts) - 1, errs[n1:], pts[n1:]), key))
    # the errors reported during the continuation are the deviations of the results reported at those evaluations
    loop_results = [r for r in results]
    if not c.get("reeval_first") or True:
        # with reevaluate_at_end every phase ends with one extra evaluate_final_combi(), which does not go through evaluate_operation
        if len(loop_results) == len(errs):
            for k in range(n1, len(errs)):
                res = loop_results[k]
                if LA.norm(ref) == 0:
                    expect = LA.norm(abs(res), nrm) / (len(res) ** (1 / nrm))
                else:
                    expect = LA.norm(abs((ref - res) / ref), nrm) / (len(res) ** (1 / nrm))
                if not (abs(expect - errs[k]) <= 1e-12 * max(1.0, abs(expect))):
                    fails.append(fail("error_formula", "continuation, evaluation %d: reported error %r, deviation of the reported result from the reference %r" % (k, errs[k], expect), key))
                    break
        else:
            fails.append(fail("array_lengths", "%d evaluations of the loop, %d error entries" % (len(loop_results), len(errs)), key))
    if pts[n1] != pts[n1 - 1]:
        fails.append(fail("reevaluation_point_count", "first evaluation of the continuation reports %d points, the state had %d" % (pts[n1], pts[n1 - 1]), key))
    return {"failures": fails, "canon": core.config_key(c), "outcome": (n1, tuple(pts[n1:])), "nontrivial": len(pts) > n1 + 1, "evals": len(pts)}


# off-grid diagnostic points for the evaluation_points option (never dyadic, so they are no quadrature points)
EP = [(0.123456, 0.654321), (0.777, 0.333), (0.501, 0.499)]


def run_case(case):
    c = case["config"]
    if "then" in c:
        return _continue_case(case)
    strat, kind, norm = c["strategy"], c["integrand"], c["norm"]
    tol, mn, mx = c["tol"], c["min_evaluations"], c["max_evaluations"]
    key = {"strategy": strat.split("_")[0]}
    sa, eo, lm, op, ref, seen, nrm = _make(strat, kind, norm)
    log = []
    vt = None
    oe, orf = sa.evaluate_operation, sa.refine

    def ev_wrap():
        if len(log) > 600:
            raise core.HarnessError("horizon: more than 300 evaluate/refine rounds in one driver call")
        r = oe()
        if vt is not None:
            vt.advance(1.0)          # one unit of virtual time per completed evaluation
        bens = [o.benefit for o in _objects(sa) if getattr(o, "benefit", None) is not None]
        errs = [o.error for o in _objects(sa) if getattr(o, "error", None) is not None]
        log.append(("E", r[0], len(seen - set(EP)), np.array(op.get_result(), dtype=float).copy(),
                    min([float(np.min(b)) for b in bens] or [0.0]), min([float(np.min(e)) for e in errs] or [0.0])))
        return r

    def rf_wrap():
        log.append(("R",))
        return orf()
    sa.evaluate_operation, sa.refine = ev_wrap, rf_wrap
    mt = c.get("max_time")
    kw = {} if mt is None else {"max_time": mt}
    with (clock.virtual_clock() if c.get("clock") == "virtual" else contextlib.nullcontext()) as vclock:
        vt = vclock
        R = sa.performSpatiallyAdaptiv(lm[0], lm[1], eo, tol=tol, max_evaluations=mx, min_evaluations=mn, print_output=False,
                                       recalculate_frequently=strat.endswith("_recalc"),
                                       evaluation_points=EP if strat.endswith("_ep") else None, do_plot=strat.endswith("_plot"), **kw)
    if strat.endswith("_plot"):
        import matplotlib.pyplot as plt
        plt.close("all")
    twice_fail = None
    if c.get("twice"):
        # the driver is called a SECOND time on the same object with the same arguments: what the first call left behind must not
        # matter - the second call is judged like any run (stop rule, error formula, array lengths) and must equal the run of a fresh object
        first_log = list(log)
        del log[:]
        try:
            R = sa.performSpatiallyAdaptiv(lm[0], lm[1], eo, tol=tol, max_evaluations=mx, min_evaluations=mn, print_output=False,
                                           recalculate_frequently=strat.endswith("_recalc"),
                                           evaluation_points=EP if strat.endswith("_ep") else None)
        except core.HarnessError as e:
            return {"failures": [fail("second_call_does_not_stop", "second performSpatiallyAdaptiv on one object (first call: %d evaluations, points %r): %s; points so far %r"
                                      % (len([x for x in first_log if x[0] == "E"]), list(R[6]), e, [x[2] for x in log if x[0] == "E"][-5:]), key)],
                    "canon": (strat, kind, norm, tol, mn, mx, mt, c.get("clock"), True), "outcome": ("no stop",), "nontrivial": True, "evals": len(log)}
        sa2, eo2, lm2, op2, ref2, seen2, nrm2 = _make(strat, kind, norm)
        Rf = sa2.performSpatiallyAdaptiv(lm[0], lm[1], eo2, tol=tol, max_evaluations=mx, min_evaluations=mn, print_output=False,
                                         recalculate_frequently=strat.endswith("_recalc"),
                                         evaluation_points=EP if strat.endswith("_ep") else None)
        if list(R[6]) != list(Rf[6]) or not np.allclose(np.asarray(R[5], dtype=float), np.asarray(Rf[5], dtype=float), rtol=1e-12, atol=0) or \
                not np.allclose(np.asarray(R[3], dtype=float), np.asarray(Rf[3], dtype=float), rtol=1e-12, atol=0):
            twice_fail = fail("second_call_on_used_object", "second performSpatiallyAdaptiv on one object: points %r errors %r result %r; fresh object: points %r errors %r result %r"
                              % (list(R[6]), [float(e) for e in R[5]], R[3], list(Rf[6]), [float(e) for e in Rf[5]], Rf[3]), key)
        # the distinct-evaluation count of the second call cannot be observed through the shared integrand cache: entries 2 of the log
        # are replaced by the reported counts so that only the other oracles judge the second call
        log[:] = [x if x[0] != "E" else (x[0], x[1], None) + tuple(x[3:]) for x in log]
    evs = [x for x in log if x[0] == "E"]
    pts, errs, surplus = list(R[6]), list(R[5]), list(R[7])
    fails = []
    if not (len(pts) == len(errs) == len(evs) == len(surplus)):
        fails.append(fail("array_lengths", "evaluations %d, error_array %d, num_point_array %d, surplus_error_array %d" % (len(evs), len(errs), len(pts), len(surplus)), key))
    if any(pts[i] > pts[i + 1] for i in range(len(pts) - 1)):
        fails.append(fail("point_counts_monotone", "num_point_array %r" % (pts,), key))
    if any(e < 0 for e in errs) or any(e < 0 for e in surplus):
        fails.append(fail("error_negative", "errors %r surplus errors %r" % (errs, surplus), key))
    if any(x[4] < 0 for x in evs):
        fails.append(fail("benefit_negative", "smallest benefit per evaluation %r" % ([x[4] for x in evs],), key))
    if any(x[5] < 0 for x in evs):
        fails.append(fail("object_error_negative", "smallest object error per evaluation %r" % ([x[5] for x in evs],), key))
    # reference model of the loop: stop at the first k with (err<=tol and n>=min) or (max is not None and n>max)
    stop = None
    for k, (e, p) in enumerate(zip(errs, pts)):
        # time budget (virtual clock: k+1 units have elapsed after evaluation k; real clock: only budgets no run can exhaust)
        timed_out = mt is not None and c.get("clock") == "virtual" and (k + 1) > mt
        if (e <= tol and p >= mn) or (mx is not None and p > mx) or timed_out:
            stop = k
            break
    if stop != len(evs) - 1:
        fails.append(fail("stop_index", "model stops at evaluation %r, run performed %d evaluations; errors %r points %r tol %r min %r max %r max_time %r (%s clock)"
                          % (stop, len(evs), errs, pts, tol, mn, mx, mt, c.get("clock", "real")), dict(key, time_budget=mt is not None)))
    seq = "".join(x[0] for x in log)
    if seq != "E" + "RE" * (len(evs) - 1):
        fails.append(fail("evaluate_refine_sequence", "sequence %s" % seq, key))
    if twice_fail is not None:
        fails.append(twice_fail)
    for k, x in enumerate(evs):
        if x[2] is None:
            break
        if k < len(pts) and x[2] != pts[k]:
            fails.append(fail("distinct_evaluation_count", "evaluation %d: reported %r points, %d distinct integrand evaluations" % (k, pts[k], x[2]), key))
            break
    for k, x in enumerate(evs):
        res = x[3]
        if LA.norm(ref) == 0:
            expect = LA.norm(abs(res), nrm) / (len(res) ** (1 / nrm))
        else:
            expect = LA.norm(abs((ref - res) / ref), nrm) / (len(res) ** (1 / nrm))
        if k < len(errs) and not (abs(expect - errs[k]) <= 1e-12 * max(1.0, abs(expect))):
            fails.append(fail("error_formula", "evaluation %d: reported error %r, deviation of the result from the reference %r" % (k, errs[k], expect), key))
            break
    if evs and not np.array_equal(np.asarray(R[3], dtype=float), evs[-1][3]):
        fails.append(fail("returned_result", "returned %r, result at the last evaluation %r" % (R[3], evs[-1][3]), key))
    if sa.refinements < 0 or len([x for x in log if x[0] == "R"]) != len(evs) - 1:
        fails.append(fail("refine_count", "%d refine calls for %d evaluations" % (len([x for x in log if x[0] == 'R']), len(evs)), key))
    return {"failures": fails, "canon": (strat, kind, norm, tol, mn, mx, mt, c.get("clock"), bool(c.get("twice"))), "outcome": (len(evs), tuple(pts)),
            "nontrivial": len(evs) > 1, "evals": len(evs), "pts": pts, "errs": [float(e) for e in errs],
            "final": [float(x) for x in np.asarray(R[3], dtype=float).ravel()]}


def main(ctx):
    q = ctx.tier == "quick"
    # *_ep: the evaluation_points option (interpolation-error diagnostics at user-supplied off-grid points after every evaluation)
    # *_plot: do_plot=True (contour plot, refinement graph, combination scheme and sparse grid are drawn after every step: looking at
    # the run must not change it)
    strategies = ["dw", "dw_noreb", "es", "es_v1", "es_auto", "cell", "es_gl", "es_gl_recalc", "es_recalc", "dw_ep", "es_ep", "dw_plot", "es_plot", "cell_plot"]
    kinds = ["peak", "vec", "zero", "disc", "peak_tiny", "vec_scaled", "lin_off", "zero_on_grid"] if q else ["peak", "vec", "zero", "disc", "c0", "vec3", "peak_tiny", "vec_scaled", "lin_off", "zero_on_grid"]
    norms = [1, 2, "inf"]
    base = [{"config": {"strategy": s, "integrand": k, "norm": n, "tol": -1, "min_evaluations": 1, "max_evaluations": 90 if q else 150}}
            for s in strategies for k in kinds for n in norms]
    ctx.determinism_probe(base[0])
    results = ctx.map(base, chunksize=1)
    results0 = results
    cases = []
    for bc, res in zip(base, results):
        ctx.absorb(bc, res, group="baseline")
        nk = res.get("pts") or []
        if not nk or bc["config"]["strategy"].endswith("_plot"):
            continue
        c0 = bc["config"]
        tols = [-1, 0, 1e-3, 1e-1, 1e10]
        mins = sorted({0, 1, nk[0], nk[0] + 1, nk[min(2, len(nk) - 1)]})
        maxs = [None] + sorted({0, nk[0] - 1, nk[0], nk[min(1, len(nk) - 1)], nk[min(3, len(nk) - 1)]})
        for tol, mn, mx in itertools.product(tols, mins, maxs):
            if tol <= 0 and mx is None:
                continue  # would never stop
            if tol == 1e-3 and mx is None:
                mx_eff = nk[-1]   # keep the run finite
            else:
                mx_eff = mx
            cases.append({"config": dict(c0, tol=tol, min_evaluations=mn, max_evaluations=mx_eff)})
    # a second call of the driver on the same object
    for bc, res in zip(base, results0):
        nk = res.get("pts") or []
        c0 = bc["config"]
        if len(nk) < 3 or c0["norm"] != "inf" or c0["integrand"] not in ("peak", "vec", "disc") or c0["strategy"].endswith("_plot"):
            continue
        for tol, mx in ((-1, nk[min(3, len(nk) - 1)]), (1e-1, nk[-1])):
            cases.append({"config": dict(c0, tol=tol, max_evaluations=mx, twice=True)})
    # time budgets: a budget no run can exhaust on the real clock (must change nothing), and - on a virtual clock owned by the explorer,
    # one unit per evaluation - every budget that expires after evaluation 0, 1, 2, 3 combined with the other limits
    ntime = 0
    for bc, res in zip(base, results0):
        nk = res.get("pts") or []
        c0 = bc["config"]
        if len(nk) < 3 or c0["norm"] != "inf" or c0["integrand"] not in ("peak", "vec") or c0["strategy"].endswith("_plot"):
            continue
        cases.append({"config": dict(c0, tol=1e-3, max_evaluations=nk[min(3, len(nk) - 1)], max_time=1.0e9)})
        ntime += 1
        for mt in (0.5, 1.5, 2.5, 3.5, 1.0e9):
            for tol, mx in ((-1, nk[-1]), (1e-1, nk[min(2, len(nk) - 1)]), (1e10, None)):
                cases.append({"config": dict(c0, tol=tol, max_evaluations=mx, max_time=mt, clock="virtual")})
                ntime += 1
    # two-phase runs: every (first limits) x (continuation limits) pair from small menus, incl. continuation tolerances 0 and -1
    ncont = 0
    for bc, res in zip(base, results0):
        nk = res.get("pts") or []
        c0 = bc["config"]
        if len(nk) < 3 or c0["norm"] != "inf" or c0["integrand"] not in ("peak", "vec") or c0["strategy"] not in ("dw", "es", "cell", "es_gl"):
            continue
        for tol1, mx1 in ((1e10, None), (1e-1, nk[1]), (-1, nk[0]), (0, nk[1])):
            # (1e-1, None): a continuation WITHOUT a point limit may only end by its tolerance, whatever limit the first phase had
            for tol2, mx2 in ((0, nk[2]), (-1, nk[2]), (1e-3, nk[-1]), (1e10, None), (0, nk[0]), (1e-1, None)):
                if mx2 is None and tol2 < 1e10 and not (res.get("errs") and min(res["errs"]) <= tol2):
                    continue        # the tolerance is not reached within the baseline: the run would not end
                hz = 3 * len(nk) + 10       # evaluations of both phases together never exceed twice the unlimited baseline
                cases.append({"config": dict(c0, tol=tol1, max_evaluations=mx1, horizon=hz, then={"tol": tol2, "max_evaluations": mx2})})
                ncont += 1
                if (tol1, mx1) in ((1e-1, nk[1]), (0, nk[1])):
                    cases.append({"config": dict(c0, tol=tol1, max_evaluations=mx1, horizon=hz, reeval_first=True, then={"tol": tol2, "max_evaluations": mx2})})
                    ncont += 1
    results = ctx.map(cases, chunksize=2)
    for case, res in zip(cases, results):
        ctx.absorb(case, res, group=case["config"]["strategy"])
    for i in (0, len(cases) // 3, 2 * len(cases) // 3):
        ctx.add_sample({"case": cases[i], "evaluations": results[i].get("evals"), "points": results[i].get("pts")})
    # metamorphic cross-check: scaling the integrand (and the reference) by an exact power of two must not change a single stopping
    # decision -> the baselines of "peak" and "peak_tiny" must have identical point counts
    bykey = {(b["config"]["strategy"], b["config"]["integrand"], b["config"]["norm"]): r for b, r in zip(base, results0)}
    for (st, kind, nm), r in bykey.items():
        if st.endswith("_plot"):
            other = bykey.get((st[:-5], kind, nm))
            if other is not None and (other.get("pts") != r.get("pts") or other.get("errs") != r.get("errs") or other.get("final") != r.get("final")):
                ctx.record_failure(fail("plotting_changes_run", "strategy %s integrand %s norm %s: point counts %r with do_plot=True, %r without; final results %r vs %r"
                                        % (st, kind, nm, r.get("pts"), other.get("pts"), r.get("final"), other.get("final")), {"strategy": st.split("_")[0]}),
                                   {"config": {"strategy": st, "integrand": kind, "norm": nm, "tol": -1, "min_evaluations": 1, "max_evaluations": 90 if q else 150}})
        if kind == "peak_tiny":
            other = bykey.get((st, "peak", nm))
            if other is not None and other.get("pts") != r.get("pts"):
                ctx.record_failure(fail("scale_invariance", "strategy %s norm %s: point counts %r for the integrand, %r for the integrand scaled by 2^-32"
                                        % (st, nm, other.get("pts"), r.get("pts")), {"strategy": st.split("_")[0]}),
                                   {"config": {"strategy": st, "integrand": "peak_tiny", "norm": nm, "tol": -1, "min_evaluations": 1,
                                               "max_evaluations": 90 if q else 150}})
    ctx.bounds = {"strategies": strategies, "integrands": kinds, "norms": norms, "limit_cases": len(cases) - ncont - ntime, "baselines": len(base),
                  "two_phase_cases": ncont, "time_budget_cases": ntime}
    return ctx.finish(
        rule="one case = one complete adaptive run on the real loop with the library's own estimator; the lattice is strategy x "
             "integrand x norm x tol{-1,0,1e-3,1e-1,1e10} x min_evaluations{0,1,n0,n0+1,n2} x max_evaluations{None,0,n0-1,n0,n1,n3} "
             "with n_k the point counts of the unlimited baseline (every boundary case incl. limits met at the first evaluation); "
             "distinct = distinct limit configuration; non-trivial = run with at least one refinement",
        assumptions=["d=2, lmin/lmax = (1,2) (cell: (2,2)); reference solutions from the library's analytic integrals (checked by C12)",
                     "the library's len^(1/norm) normalisation of the error norm is accepted as 'the chosen norm'",
                     "max_time: the clock read by the driver is a seam owned by the explorer (mc/clock.py; perf_counter and time() with different epochs as on a real machine, one unit per evaluation); on the real clock only a budget of 1e9 s is used"])
