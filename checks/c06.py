"""C06 - refinement structures stay well formed under every refinement history (dimension-wise strategy).

BFS over histories of *benefit assignments* (scripted estimator; the real refine() performs the margin
selection).  After every step: ascending gap-free tiling, level agreement at shared points, end levels 0,
binary-tree law (also after rebalancing), coarsening == lmax - max(levels) >= 0, lmax >= deepest level, and the
step split exactly the intervals whose benefit reaches margin * max benefit (computed independently).
"""
import itertools

from mc import core, dw, dw_oracles as orc
from mc.core import fail

PID = "C06"
BELOW = 1 - 2.0 ** -40


def _events(sa, config):
    """selected set S (benefit 1) of size <= s with: others 0 | others just below the margin |
    one further interval exactly at the margin | one further interval just below the margin"""
    if config.get("towards"):
        return [[list(x) + [1.0] for x in ev] for ev in dw.events_towards(sa, config["towards"])]
    if config.get("halflines"):
        # one-sided bulk refinement (all intervals right/left of a cut), optionally together with one further interval: the
        # histories that unbalance the tree and make the rebalancing rotate freshly refined deep subtrees
        out, seen = [], set()
        iv = dw.intervals(sa)
        for d in range(sa.dim):
            ivd = [x for x in iv if x[0] == d]
            for k in range(len(ivd)):
                for bulk in (ivd[k:], ivd[:k + 1]):
                    rest = [x for x in ivd if x not in bulk]
                    for extra in [None] + rest:
                        ev = bulk + ([extra] if extra else [])
                        key = tuple(sorted(ev))
                        if key not in seen:
                            seen.add(key)
                            out.append([list(x) + [1.0] for x in ev])
        return out
    iv = dw.intervals(sa)
    m = config["margin"]
    s = config["s"]
    out = []
    n = len(iv)
    for k in range(1, s + 1):
        for ch in itertools.combinations(range(n), k):
            base = [list(iv[i]) + [1.0] for i in ch]
            out.append(base)
            rest = [i for i in range(n) if i not in ch]
            if rest:
                out.append(base + [list(iv[i]) + [m * BELOW] for i in rest])
            if k == 1:
                for j in rest:
                    if m < 1.0:
                        out.append(base + [list(iv[j]) + [m]])
                    out.append(base + [list(iv[j]) + [m * BELOW]])
    # ties at the maximum over a whole dimension / everything, and a scaled variant (max benefit != 1)
    out.append([list(x) + [1.0] for x in iv])
    for d in range(sa.dim):
        out.append([list(x) + [3.5] for x in iv if x[0] == d] + [list(x) + [3.5 * m * BELOW] for x in iv if x[0] != d])
    return out


def run_case(case):
    config, history = case["config"], case["history"]
    key = {"rebalancing": bool(config["rebalancing"])}
    r = dw.build(config, history, orc.hash_function(0, 1), 1)
    sa = r.sa
    fails = orc.structure_failures(sa, key)
    if not (abs(sa.margin - config["margin"]) <= 0):
        fails.append(fail("margin_parameter", "margin attribute %r differs from constructor argument %r" % (sa.margin, config["margin"]), key))
    if r.snaps:
        before, after, bmax = r.snaps[-1]
        fails += orc.selection_failures(before, after, config["margin"], key)
        benefits = [o[4] for dim in before for o in dim]
        if bmax != max(benefits):
            fails.append(fail("benefit_max", "benefit_max %r, largest benefit %r" % (bmax, max(benefits)), key))
    res = {"failures": fails, "canon": dw.canon(sa), "nontrivial": len(history) > 0,
           "outcome": tuple(tuple(o[2] for o in dim) for dim in dw.structure(sa))}
    if case.get("want_events", False):
        res["events"] = _events(sa, config)
    return res


def configs(tier):
    out = []

    def add(d, lmax, margin, reb, safety, D, s, version=6, boundary=True, towards=None, halflines=False, a=None, b=None, **opts):
        c = {"d": d, "lmin": 1, "lmax": lmax, "version": version, "rebalancing": reb, "boundary": boundary,
             "margin": margin, "safety": safety, "s": s}
        c.update(opts)
        if a is not None:
            c["a"], c["b"] = a, b
        if towards:
            c["towards"] = towards
        if halflines:
            c["halflines"] = True
        out.append((c, D))
    if tier == "quick":
        # a domain far from the origin (rebalancing compares interval positions and widths)
        add(1, 2, 0.9, True, 0.1, 6, 1, a=[1048576.0], b=[1048577.0], towards=[[1048576.3], [1048576.34]])
        for margin in (0.5, 0.9, 1.0):
            add(2, 2, margin, True, 0.1, 2, 1)
        # margin 0 (every interval reaches 0 x the largest benefit): a legal, falsy value
        add(1, 2, 0.0, True, 0.1, 2, 2)
        add(2, 2, 0.0, True, 0.1, 2, 1)
        for safety in (0.0, 0.1, 0.5):
            add(1, 2, 0.9, True, safety, 3, 2)
            add(1, 3, 0.9, True, safety, 2, 1)
        add(2, 2, 0.9, False, 0.1, 2, 1)
        add(2, 3, 0.9, True, 0.0, 1, 1)
        add(3, 2, 0.9, True, 0.1, 1, 1)
        add(1, 2, 0.5, True, 0.0, 3, 1)
        for safety in (0.0, 0.1, 0.5):
            add(2, 2, 0.9, True, safety, 6, 1, towards=[[0.3, 0.3], [0.3, 0.8]])
            add(1, 2, 0.9, True, safety, 8, 1, towards=[[0.3], [0.34], [0.9]])
        add(2, 3, 0.9, True, 0.1, 5, 1, towards=[[0.3, 0.3], [0.34, 0.8]])
        add(3, 2, 0.9, True, 0.1, 4, 1, towards=[[0.3, 0.3, 0.3]])
        add(1, 2, 0.9, True, 0.1, 3, 1, halflines=True)
        # rarely used public constructor options (no adaptive scheme extension; volume-weighted error estimates)
        for opt in ({"dim_adaptive": False}, {"use_volume_weighting": True}):
            add(2, 2, 0.9, True, 0.1, 2, 1, **opt)
            add(2, 2, 0.9, True, 0.1, 5, 1, towards=[[0.3, 0.3], [0.3, 0.8]], **opt)
    else:
        for opt in ({"dim_adaptive": False}, {"use_volume_weighting": True}):
            add(2, 2, 0.9, True, 0.1, 2, 2, **opt)
            add(2, 3, 0.9, True, 0.0, 6, 1, towards=[[0.3, 0.3], [0.34, 0.8]], **opt)
        for safety in (0.0, 0.1, 0.5):
            add(1, 2, 0.9, True, safety, 3, 1, halflines=True)
        add(1, 3, 0.9, True, 0.1, 2, 1, halflines=True)
        add(2, 2, 0.9, True, 0.1, 2, 1, halflines=True)
        for safety in (0.0, 0.1, 0.5):
            add(2, 2, 0.9, True, safety, 7, 1, towards=[[0.3, 0.3], [0.3, 0.8], [0.34, 0.1]])
            add(1, 2, 0.9, True, safety, 10, 1, towards=[[0.3], [0.34], [0.9]])
            add(2, 3, 0.9, True, safety, 6, 1, towards=[[0.3, 0.3], [0.34, 0.8]])
        add(3, 2, 0.9, True, 0.1, 5, 1, towards=[[0.3, 0.3, 0.3], [0.8, 0.3, 0.6]])
        for margin in (0.5, 0.9, 1.0):
            for reb in (True, False):
                add(2, 2, margin, reb, 0.1, 2, 2)
                add(2, 2, margin, reb, 0.0, 3, 1)
        for safety in (0.0, 0.1, 0.5):
            add(1, 2, 0.9, True, safety, 4, 1)
            add(1, 2, 0.9, True, safety, 3, 2)
            add(1, 3, 0.9, True, safety, 3, 2)
            add(2, 3, 0.9, True, safety, 2, 1)
            add(2, 2, 0.5, True, safety, 3, 1)
        add(3, 2, 0.9, True, 0.1, 2, 1)
        add(3, 2, 0.5, True, 0.0, 2, 1)
        add(1, 2, 0.5, True, 0.0, 4, 1)
    return out


def main(ctx):
    ctx.determinism_probe({"config": {"d": 2, "lmin": 1, "lmax": 2, "version": 6, "rebalancing": True, "boundary": True,
                                      "margin": 0.9, "safety": 0.1, "s": 1},
                           "history": [[[0, 0.0, 0.25, 1.0]], [[0, 0.0, 0.125, 1.0], [1, 0.5, 0.75, 0.9]]]})
    for config, D in configs(ctx.tier):
        tag = "d%d_lmax%d_m%s_reb%d_sf%s_D%d_s%d%s" % (config["d"], config["lmax"], config["margin"], config["rebalancing"],
                                                      config["safety"], D, config["s"], ("_towards" if config.get("towards") else ("_halflines" if config.get("halflines") else "")) + ("_far" if config.get("a") else "")) + \
            "".join("_%s%d" % (k, bool(v)) for k, v in sorted(config.items()) if k in ("dim_adaptive", "use_volume_weighting"))
        ctx.bounds[tag] = core.bfs(ctx, config, D, tag=tag)
    return ctx.finish(
        rule="state = per-dimension interval lists reached by a history of benefit assignments; events = selected set S "
             "(|S|<=s, benefit 1) with the remaining intervals at 0 / all just below the margin / one further interval exactly at "
             "the margin / one just below it, plus all-tied and per-dimension ties with a scaled maximum; BFS with canonical-state "
             "deduplication; non-trivial = state reached by at least one refine()",
        assumptions=["domain [0,1]^d, dyadic midpoints; d<=3; bounds per configuration in bounds_completed",
                     "'just below the margin' is margin*(1-2^-40)"])
