"""C19 - classification assigns the arg-max density class under the learning scaling.

Exhaustive lattice of learning configurations (data set x split percentage x even/uneven split x standard /
dimension-wise learning x shuffle permutation chosen by the explorer) and, on each learned object, ALL sequences of
length <= D over {__call__, test_data} x {inside, partly outside, entirely outside, with unlabelled samples}.
Reference model: class of x = argmax_k density_k((x - min) * factor + 0.005) with the scaling fixed at learning
time; samples whose scaled coordinates leave [0.0049, 0.9951] are removed; unlabelled samples are set aside; the
summary is recomputed from returned classes and true labels; earlier results do not change.
"""
import copy
import itertools

import numpy as np

from mc import core
from mc.core import fail
from checks import c18

PID = "C19"

LEARN = {
    "three_classes_2d": (np.array([[0.1, 0.2], [0.2, 0.1], [0.15, 0.3], [0.3, 0.25], [0.8, 0.9], [0.9, 0.7], [0.7, 0.85], [0.95, 0.95],
                                   [0.5, 0.1], [0.1, 0.9], [0.4, 0.6], [0.6, 0.45]]),
                         np.array([0, 0, 0, 0, 1, 1, 1, 1, 0, 1, 2, 2])),
    "two_classes_2d_unlabelled": (np.array([[-1.0, 2.0], [0.0, 2.5], [-0.5, 3.0], [0.5, 2.2], [3.0, 6.0], [2.5, 5.0], [2.0, 5.5], [3.5, 5.8],
                                            [1.0, 4.0], [1.5, 3.0]]),
                                  np.array([0, 0, 0, 0, 1, 1, 1, 1, -1, -1])),
    "two_classes_1d": (np.array([[0.0], [0.5], [1.0], [1.2], [3.0], [3.5], [4.0], [2.9]]), np.array([0, 0, 0, 0, 1, 1, 1, 1])),
}
# a feature with a very small extent (lengths in metres of millimetre-sized parts): everything that is relative to the learned range
# must stay relative - a sample 5e-5 outside a range of extent 1.1e-3 is 4 % outside
_TX = lambda X: np.column_stack([2.5e-2 + 1.3e-3 * np.asarray(X)[:, 0], np.asarray(X)[:, 1]])
LEARN["tiny_extent_2d"] = (_TX(LEARN["three_classes_2d"][0]), LEARN["three_classes_2d"][1].copy())
# evaluation data per learning set: inside, partly outside, entirely outside, with unlabelled samples
EVAL = {
    "three_classes_2d": {
        "in": (np.array([[0.12, 0.22], [0.85, 0.8], [0.5, 0.5], [0.3, 0.7]]), np.array([0, 1, 2, 1])),
        "part": (np.array([[0.12, 0.22], [2.0, 0.5], [0.85, 0.8], [-1.0, 0.3]]), np.array([0, 1, 1, 0])),
        "out": (np.array([[2.0, 0.5], [-1.0, 0.3]]), np.array([1, 0])),
        "unl": (np.array([[0.12, 0.22], [0.85, 0.8], [0.5, 0.5]]), np.array([0, -1, 2])),
        "single": (np.array([[0.3, 0.7]]), np.array([1])),
    },
    "two_classes_2d_unlabelled": {
        "in": (np.array([[-0.8, 2.1], [3.0, 5.5], [1.0, 4.0]]), np.array([0, 1, 1])),
        "part": (np.array([[-0.8, 2.1], [9.0, 5.0], [3.0, 5.5], [0.0, -4.0]]), np.array([0, 1, 1, 0])),
        "out": (np.array([[9.0, 5.0], [0.0, -4.0]]), np.array([1, 0])),
        "unl": (np.array([[-0.8, 2.1], [3.0, 5.5], [1.0, 4.0]]), np.array([-1, 1, -1])),
        "single": (np.array([[1.0, 4.0]]), np.array([0])),
    },
    "two_classes_1d": {
        "in": (np.array([[0.3], [3.2], [2.0]]), np.array([0, 1, 1])),
        "part": (np.array([[0.3], [7.0], [3.2]]), np.array([0, 1, 1])),
        "out": (np.array([[7.0], [-2.0]]), np.array([1, 0])),
        "unl": (np.array([[0.3], [3.2]]), np.array([-1, 1])),
        "single": (np.array([[2.0]]), np.array([1])),
    },
}
# labels with gaps (classes 0, 2 and 5): the class of a sample is its LABEL, not the position of the label in a list
_GAP = lambda y: np.array([{0: 0, 1: 2, 2: 5}.get(int(v), int(v)) for v in y])
LEARN["labels_gap_2d"] = (LEARN["three_classes_2d"][0].copy(), _GAP(LEARN["three_classes_2d"][1]))
EVAL["labels_gap_2d"] = {k: (v[0].copy(), _GAP(v[1])) for k, v in EVAL["three_classes_2d"].items()}
_lo0, _hi0 = float(LEARN["tiny_extent_2d"][0][:, 0].min()), float(LEARN["tiny_extent_2d"][0][:, 0].max())
EVAL["tiny_extent_2d"] = {
    "in": (_TX(EVAL["three_classes_2d"]["in"][0]), EVAL["three_classes_2d"]["in"][1].copy()),
    "part": (np.array([[_TX([[0.12, 0.22]])[0][0], 0.22], [_hi0 + 5e-5, 0.5], [_TX([[0.85, 0.8]])[0][0], 0.8], [_lo0 - 8e-5, 0.3]]), np.array([0, 1, 1, 0])),
    "out": (np.array([[_hi0 + 5e-5, 0.5], [_lo0 - 8e-5, 0.3]]), np.array([1, 0])),
    "unl": (_TX(EVAL["three_classes_2d"]["unl"][0]), EVAL["three_classes_2d"]["unl"][1].copy()),
    "single": (_TX(EVAL["three_classes_2d"]["single"][0]), EVAL["three_classes_2d"]["single"][1].copy()),
}
# "again": the DataSet OBJECT of the previous step is handed over once more (the library scaled it and removed its outside samples in
# place): it is either refused (ValueError) or classified at the positions it holds now;
# "own": the classifier's own testing part handed back as it is returned (already under the learning scaling);
# "own_reverted": the same DataSet after revert_scaling() (raw again)
# "prescaled_far": a DataSet the USER scaled with scale_range to the classifier's range before handing it over; its raw samples span a box
# of exactly the learning data's extent but 8 units away, so range and factor equal those of the learning scaling although every sample is
# far outside the learned range: it must be refused (or treated as entirely outside), never classified
OPS = [(k, n) for k in ("call", "test") for n in ("in", "part", "out", "unl", "single", "own", "own_reverted", "again", "prescaled_far")]
OBSERVED = []      # what the implementation returned in the current case (classes / summaries), for the outcome fingerprint


def _learn(c):
    from sparseSpACE.DEMachineLearning import DataSet, Classification
    c18._install_shuffle()
    X, y = LEARN[c["data"]]
    c18.PERM[0] = c.get("perm")
    ds = DataSet((X.copy(), y.copy()), name="t")
    cl = Classification(ds, split_percentage=c["pct"], split_evenly=c["even"], shuffle_data=c.get("shuffle", False),
                        print_level=1000, log_level=1000)
    if c["dimwise"]:
        cl.perform_classification_dimension_wise(masslumping=False, lambd=0.01, minimum_level=1, maximum_level=2, max_evaluations=30,
                                                 print_metrics=False)
    else:
        cl.perform_classification(masslumping=False, lambd=0.01, minimum_level=1, maximum_level=c.get("maxlevel", 3), print_metrics=False)
    return cl


class DensityMismatch(Exception):
    pass


def _reference_density(combi, op, pts):
    from checks.c16 import _hats_at
    out = np.zeros(len(pts))
    for comp in combi.scheme:
        if hasattr(combi, "get_point_coord_for_each_dim"):
            pc, _, _ = combi.get_point_coord_for_each_dim(comp.levelvector)
            coords = [[float(x) for x in p] for p in pc]
        else:
            coords = [[i / 2 ** int(l) for i in range(2 ** int(l) + 1)] for l in comp.levelvector]
        al = np.asarray(op.surpluses[tuple(comp.levelvector)], dtype=float).ravel()
        out += comp.coefficient * np.array([float(np.dot(al, _hats_at(coords, x))) for x in pts])
    return out


def _expected(cl, lo, fac, Xd, yd, prescaled=False):
    sc = np.array(Xd, dtype=float) if prescaled else (Xd - lo) * fac + 0.005
    inr = np.array([not (any(v < 0.0049 for v in r) or any(v > 0.9951 for v in r)) for r in sc])
    scin = sc[inr]
    classifiers, ops = cl.get_density_estimation_results()
    if len(scin):
        # reference densities: sum_c coefficient_c * sum_j alpha_j phi_j(x) from the stored surpluses with independently evaluated hats
        # (not through the library's interpolation routines, whose code paths and caches are part of what is checked)
        dens = np.array([_reference_density(k, o, scin) for k, o in zip(classifiers, ops)]).T
        lib = np.array([np.asarray(k([tuple(p) for p in scin])).ravel() for k in classifiers]).T
        if lib.shape != dens.shape or not np.allclose(lib, dens, rtol=1e-9, atol=1e-10 * max(1.0, float(np.max(np.abs(dens))))):
            raise DensityMismatch("library density %r, reference %r" % (lib.tolist()[:3], dens.tolist()[:3]))
        # the class of a classifier is the label of the samples it was trained on (found through the data of its operation object)
        XL, yL = cl.get_learning_data().get_data()
        XL = np.asarray(XL, dtype=float).reshape(len(yL), -1)
        class_of = []
        for o in ops:
            row = np.asarray(o.data, dtype=float).reshape(-1, XL.shape[1])[0]
            hit = np.nonzero(np.all(np.abs(XL - row) <= 1e-12, axis=1))[0]
            class_of.append(int(yL[hit[0]]) if len(hit) else -999)
        expc = np.array(class_of)[np.argmax(dens, axis=1)]
        gap = np.sort(dens, axis=1)
        tie = (gap[:, -1] - gap[:, -2]) < 1e-9 * np.maximum(1.0, np.abs(gap[:, -1])) if dens.shape[1] > 1 else np.zeros(len(scin), dtype=bool)
    else:
        expc, tie = np.array([], dtype=int), np.array([], dtype=bool)
    return sc, inr, scin, expc, tie


def _run_sequence(c, seq):
    import sparseSpACE.GridOperation as GO
    # with "threshold": 0 the large-grid implementations of interpolation / right-hand side (normally used from 200 grid points on)
    # serve these small grids, through the guarded verification hook
    GO._VERIF_DE_THRESHOLD = c.get("threshold")
    try:
        return _run_sequence_inner(c, seq)
    finally:
        GO._VERIF_DE_THRESHOLD = None


def _run_sequence_inner(c, seq):
    from sparseSpACE.DEMachineLearning import DataSet
    cl = _learn(c)
    lo, hi = cl.get_dataset_range()
    fac = cl.get_scale_factor()
    lo, fac = np.array(lo, dtype=float), np.array(fac, dtype=float)
    key = {"learning": "dimension-wise" if c["dimwise"] else "standard"}
    issues = []
    first = None
    steps = list(seq) + [seq[0]]          # the first evaluation is repeated at the end: earlier results must not change
    calc_before = list(cl.get_calculated_classes_testset())
    # learning-time consistency: the learning data is inside the unit cube under the fixed scaling
    L = cl.get_learning_data().get_data()[0]
    if L.size and (np.min(L) < 0.0049 or np.max(L) > 0.9951):
        issues.append(("learning_data_scaled_into_range", "learning data range [%r,%r]" % (float(np.min(L)), float(np.max(L)))))
    prev_ds = None
    # foreign_tested: a successful test_data() call has appended user data to the object's stored testing data; from then on that data
    # carries parts whose scaling attributes are the user's (pct = 1: only those), and reverting it is DataSet business (C18), not the
    # classifier's: the in-range oracle on the object's own REVERTED testing data is only demanded before that
    foreign_tested = False
    for si, (kind, name) in enumerate(steps):
        again = False
        if name == "again":
            if prev_ds is None or prev_ds.is_empty() or not prev_ds.is_scaled():
                continue
            again = True
            ds = prev_ds
            Xd, yd = np.array(ds.get_data()[0], dtype=float).copy(), np.array(ds.get_data()[1]).copy()
            sc, inr, scin, expc, tie = _expected(cl, lo, fac, Xd, yd, prescaled=True)
        elif name == "prescaled_far":
            lo_raw, hi_raw = np.array(cl.get_dataset_range()[0], dtype=float), np.array(cl.get_dataset_range()[1], dtype=float)
            Xd = np.array([lo_raw + 8.0, hi_raw + 8.0, (lo_raw + hi_raw) / 2.0 + 8.0])
            yd = np.array([0, 1, 1])
            ds = DataSet((Xd.copy(), yd.copy()), name=name)
            ds.scale_range((0.005, 0.995))
            try:
                out = cl(ds, print_removed=False) if kind == "call" else cl.test_data(ds, print_output=False, print_removed=False)
                issues.append(("foreign_prescaled_data_classified", "step %d %s/%s: samples %r (raw, all far outside the learned range [%r,%r]) were scaled by the user "
                               "to the classifier's range and are accepted and classified as if they were inside" % (si, kind, name, Xd.tolist(), lo_raw.tolist(), hi_raw.tolist())))
            except ValueError:
                pass
            prev_ds = None
            continue
        elif name.startswith("own"):
            ds = cl.get_testing_data()
            if ds.is_empty():
                continue
            if name == "own_reverted":
                ds.revert_scaling()
            Xd, yd = np.array(ds.get_data()[0], dtype=float), np.array(ds.get_data()[1])
            sc, inr, scin, expc, tie = _expected(cl, lo, fac, Xd, yd, prescaled=(name == "own"))
            if not inr.all() and not foreign_tested:
                issues.append(("own_testing_data_in_range", "step %d %s/%s: %d of the classifier's own testing samples are outside the learned range" % (si, kind, name, int((~inr).sum()))))
        else:
            Xd, yd = EVAL[c["data"]][name]
            sc, inr, scin, expc, tie = _expected(cl, lo, fac, Xd, yd)
            ds = DataSet((Xd.copy(), yd.copy()), name=name)
        try:
            out = cl(ds, print_removed=False) if kind == "call" else cl.test_data(ds, print_output=False, print_removed=False)
            raised = False
        except ValueError as e:
            raised = True
            refused_reuse = "scaling doesn't match" in str(e)
        prev_ds = ds
        if again and raised and refused_reuse:
            continue          # re-use refused because of the object's scaling attributes: nothing was classified
        if name.startswith("own") and raised and refused_reuse and ds.is_scaled() and not (
                np.array_equal(np.asarray(ds.get_original_min(), dtype=float), lo) and np.array_equal(np.asarray(ds.get_original_max(), dtype=float), np.asarray(hi, dtype=float))):
            # the stored testing data stems from a user's set (test_data on an object without an initial testing part): it carries that
            # set's original extent, and the library's documented rule refuses pre-scaled data of another origin - as for "again"
            continue
        labelled_in = inr & (yd >= 0)
        if kind == "call":
            if not inr.any():
                if not raised:
                    issues.append(("all_outside_rejected", "step %d %s/%s: all samples outside the learned range but no error" % (si, kind, name)))
                continue
            if raised:
                issues.append(("unexpected_rejection", "step %d %s/%s raised ValueError although %d samples are inside" % (si, kind, name, int(inr.sum()))))
                continue
            Xo, yo = out.get_data()
            OBSERVED.append(("call", name, tuple(int(v) for v in yo)))
            if Xo.shape != scin.shape or not np.allclose(Xo, scin, rtol=1e-12, atol=1e-14):
                issues.append(("outside_samples_removed", "step %d %s/%s: returned samples %r, expected the %d inside samples %r" % (si, kind, name, Xo.tolist(), len(scin), scin.tolist())))
                continue
            bad = [i for i in range(len(expc)) if not tie[i] and int(yo[i]) != int(expc[i])]
            if bad:
                issues.append(("argmax_class", "step %d %s/%s: classes %r, arg-max of the densities %r" % (si, kind, name, list(map(int, yo)), list(map(int, expc)))))
            if first is None and si == 0:
                first = list(map(int, yo))
                first_X = np.array(Xo, dtype=float).copy()
            elif si == len(steps) - 1 and first is not None and name.startswith("own") and not (
                    len(Xo) >= len(first_X) and np.array_equal(np.array(Xo, dtype=float)[:len(first_X)], first_X)):
                pass      # the object's own testing data changed in between (grown by test_data; reverting the grown set anchors on another minimum): other inputs
            elif si == len(steps) - 1 and first is not None and (list(map(int, yo))[:len(first)] if name.startswith("own") else list(map(int, yo))) != first:
                # (the object's own testing data may have grown by later test_data calls: the classes of the earlier samples are compared)
                issues.append(("earlier_results_unchanged", "repeating the first evaluation gives %r instead of %r" % (list(map(int, yo)), first)))
        else:
            if not inr.any():
                if not raised:
                    issues.append(("all_outside_rejected", "step %d %s/%s: all samples outside but no error" % (si, kind, name)))
                continue
            if raised:
                issues.append(("unexpected_rejection", "step %d %s/%s raised ValueError although %d samples are inside" % (si, kind, name, int(inr.sum()))))
                continue
            OBSERVED.append(("test", name, int(out["Wrong mappings"]), int(out["Total mappings"])))
            m = yd[inr] >= 0
            lab = yd[inr][m]
            exp_used = expc[m]
            amb = tie[m]
            wrong = int(sum((exp_used != lab) & ~amb))
            wrong_max = int(sum((exp_used != lab) | amb))
            tot = int(m.sum())
            if tot == 0:
                continue
            if out["Total mappings"] != tot or not (wrong <= out["Wrong mappings"] <= wrong_max) or \
                    abs(out["Percentage correct"] - (1 - out["Wrong mappings"] / tot)) > 1e-12:
                issues.append(("test_summary", "step %d %s/%s: summary %r, recomputed wrong=%d total=%d" % (si, kind, name, {k: v for k, v in out.items() if "str" not in k}, wrong, tot)))
            calc_now = list(cl.get_calculated_classes_testset())
            if calc_now[:len(calc_before)] != calc_before or len(calc_now) != len(calc_before) + tot:
                issues.append(("calculated_classes_grow_at_end", "step %d: calculated classes %r -> %r (expected %d new entries)" % (si, calc_before, calc_now, tot)))
            elif [int(x) for x in calc_now[len(calc_before):]] != [int(e) for e, a in zip(exp_used, amb)] and not amb.any():
                issues.append(("calculated_classes_values", "step %d: appended %r, arg-max %r" % (si, calc_now[len(calc_before):], list(map(int, exp_used)))))
            if first is None and si == 0:
                first = ("test", out["Wrong mappings"], out["Total mappings"])
            elif si == len(steps) - 1 and isinstance(first, tuple) and first != ("test", out["Wrong mappings"], out["Total mappings"]) and not (
                    name.startswith("own") and out["Total mappings"] != first[2]):
                # (the object's own testing data grows with every test_data call: a summary over more samples is not comparable)
                issues.append(("earlier_results_unchanged", "repeating the first test gives %r instead of %r" % ((out["Wrong mappings"], out["Total mappings"]), first[1:])))
        calc_before = list(cl.get_calculated_classes_testset())
        if kind == "test" and not raised and inr.any():
            issues.extend(_overall_summary(cl, "after step %d %s/%s" % (si, kind, name)))
            foreign_tested = True
    return issues, key


def _overall_summary(cl, when):
    """evaluate(): the summary over ALL testing data of the object (the initial testing part plus everything tested later) must be
    consistent with the classes assigned so far and the labels of the stored testing samples"""
    calc = [int(x) for x in cl.get_calculated_classes_testset()]
    try:
        out = cl.evaluate()
    except ValueError as e:
        if not calc and "Nothing to evaluate" in str(e):
            return []
        return [("overall_summary", "%s: evaluate() raised ValueError(%s) with %d classes assigned so far and %d stored testing samples"
                 % (when, str(e)[:80], len(calc), cl.get_testing_data().get_length()))]
    lab = [int(x) for x in cl.get_testing_data().get_data()[1]]
    wrong = sum(1 for a, b in zip(lab, calc) if a != b)
    if len(lab) != len(calc) or out["Total mappings"] != len(calc) or out["Wrong mappings"] != wrong or \
            abs(out["Percentage correct"] - (1 - wrong / max(len(calc), 1))) > 1e-12:
        return [("overall_summary", "%s: evaluate() = %r; %d stored testing labels, %d assigned classes, %d of them differ"
                 % (when, {k: v for k, v in out.items() if "str" not in k and "Time" not in k}, len(lab), len(calc), wrong))]
    return []


def run_case(case):
    c = case["config"]
    fails = []
    n = 0
    seen = set()
    del OBSERVED[:]
    depth = c["depth"]
    for tail in itertools.product(OPS, repeat=depth - len(c["prefix"])):
        seq = [tuple(x) for x in c["prefix"]] + list(tail)
        n += 1
        try:
            issues, key = _run_sequence(c, seq)
        except DensityMismatch as e:
            issues, key = [("density_of_classifier", str(e)[:300])], {"learning": "dimension-wise" if c["dimwise"] else "standard"}
        except Exception as e:
            issues, key = [("exception", "%s: %s" % (type(e).__name__, str(e)[:200]))], {"learning": "dimension-wise" if c["dimwise"] else "standard", "type": type(e).__name__}
        for oracle, detail in issues:
            if oracle in seen:
                continue
            seen.add(oracle)
            f = fail(oracle, "learning %r, sequence %r: %s" % ({k: v for k, v in c.items() if k not in ("prefix", "depth")}, seq, detail), dict(key))
            f["case"] = {"config": dict(c, prefix=[list(x) for x in seq], depth=len(seq))}
            fails.append(f)
    return {"failures": fails, "canon": core.config_key(c), "outcome": (n, len(fails), core.digest(tuple(OBSERVED))), "nontrivial": True, "evals": n}


def cases(tier):
    q = tier == "quick"
    out = []
    depth = 2 if q else 3
    for data in LEARN:
        for pct in (1.0, 0.5, 0.7):
            for even in (True, False):
                for dimwise in (False, True):
                    perms = [None]
                    if data == "three_classes_2d" and pct == 0.7 and not dimwise:
                        n = len(LEARN[data][0])
                        perms = [None, list(reversed(range(n))), [(i * 5) % n for i in range(n)]]
                    for perm in perms:
                        for first in OPS:
                            cfg = {"data": data, "pct": pct, "even": even, "dimwise": dimwise, "prefix": [list(first)], "depth": depth}
                            if perm is not None:
                                cfg["shuffle"], cfg["perm"] = True, perm
                            out.append({"config": cfg})
                            if perm is None and pct == 0.7 and even:
                                out.append({"config": dict(cfg, threshold=0)})
    return out


def main(ctx):
    cs = cases(ctx.tier)
    ctx.determinism_probe({"config": {"data": "three_classes_2d", "pct": 0.7, "even": True, "dimwise": False, "prefix": [["call", "part"], ["test", "unl"]], "depth": 2}})
    results = ctx.map(cs, chunksize=1)
    total = 0
    for case, res in zip(cs, results):
        c = case["config"]
        ctx.absorb(case, res, group="%s_%s" % (c["data"], "dimwise" if c["dimwise"] else "standard"))
        total += res["evals"]
    for i in (1, len(cs) // 2, len(cs) - 2):
        ctx.add_sample(cs[i])
    ctx.bounds = {"learning_configurations": len(cs) // len(OPS), "sequence_depth": 2 if ctx.tier == "quick" else 3, "sequences": total,
                  "alphabet": [list(o) for o in OPS]}
    return ctx.finish(
        rule="one case = learning configuration x first operation; inside it ALL call sequences of the stated depth over {__call__, "
             "test_data} x {inside, partly outside, entirely outside, with unlabelled, a single sample, the classifier's own testing part as returned, the same reverted} are executed on freshly learned objects and the "
             "first evaluation is repeated at the end (evaluations = sequences)",
        assumptions=["the expected class uses reference densities computed from the stored surpluses with independently evaluated hats, under "
                     "the scaling fixed at learning time; the library's own density at the same points must agree with them; samples whose two best densities are within 1e-9 are treated as ties (either class accepted)",
                     "configurations with threshold=0 run the large-grid code paths on the same small grids (guarded hook); shuffle permutation chosen by the explorer; lambda=0.01, levels 1..3 (standard) / 1..2 with 30 evaluations (dimension-wise)"])
