"""C01 - the adaptive combination scheme is always a valid inclusion-exclusion scheme.

Explicit-state search over the real CombiScheme object.  State = (old, active) index sets reached by
a history of effective refinements; events = update_adaptive_combi(l) for EVERY l of the box
[max(lmin-1,0) .. L+1]^d.  Every transition is compared with the reference model and all invariants of
the statement are evaluated on the successor.
"""
import itertools

import numpy as np

from mc import core
from mc.core import fail
from mc.refmodels import indexset as ref

PID = "C01"


def _build(config, history):
    from sparseSpACE.combiScheme import CombiScheme
    d, lmin, lmax = config["d"], config["lmin"], config["lmax"]
    cs = CombiScheme(d)
    cs.init_adaptive_combi_scheme(lmax, lmin)
    old, act = ref.initial_sets(d, lmin, lmax)
    for l in history:
        r = cs.update_adaptive_combi(list(l))
        old, act, md = ref.update(old, act, tuple(l), lmin, d)
        if r != md or cs.old_index_set != old or cs.active_index_set != act:
            raise Diverged(l)
    return cs, old, act


class Diverged(Exception):
    """the implementation left the reference model while replaying a history (reported at the transition where it happened)"""


def _scheme_dict(sch):
    return {tuple(int(x) for x in g.levelvector): g.coefficient for g in sch}


def _invariants(cs, lmin, d, key):
    out = []
    I = cs.get_index_set()
    ok, w = ref.downward_closed(I, lmin)
    if not ok:
        out.append(fail("downward_closed", "index %s lacks backward neighbour in dim %d" % w, key))
    if cs.old_index_set & cs.active_index_set:
        out.append(fail("disjoint", "old and active intersect: %s" % sorted(cs.old_index_set & cs.active_index_set), key))
    for l in cs.active_index_set:
        for k in range(d):
            n = list(l)
            n[k] += 1
            if tuple(n) in I:
                out.append(fail("active_forward_neighbour", "active %s has forward neighbour %s" % (l, tuple(n)), key))
        if cs.has_forward_neighbour(list(l)):
            out.append(fail("has_forward_neighbour", "has_forward_neighbour(%s) is True for an active index" % (l,), key))
    for l in cs.old_index_set:
        # (not in the statement; consistency of the helper with its documentation is only demanded where unambiguous)
        pass
    sch = cs.getCombiScheme(do_print=False)
    got = _scheme_dict(sch)
    if len(got) != len(sch):
        out.append(fail("duplicate_grids", "a level vector is returned twice", key))
    if any(c == 0 for c in got.values()):
        out.append(fail("zero_coefficient", "grid with zero coefficient returned", key))
    if not set(got) <= I:
        out.append(fail("grids_inside_index_set", "returned grids outside index set: %s" % sorted(set(got) - I), key))
    if got != ref.coefficients(I, d):
        out.append(fail("coefficients_by_definition", "got %s expected %s" % (sorted(got.items()), sorted(ref.coefficients(I, d).items())), key))
    L = max(max(l) for l in I) + 1
    for l in itertools.product(range(lmin, L + 1), repeat=d):
        s = sum(c for g, c in got.items() if all(gg >= ll for gg, ll in zip(g, l)))
        if s != (1 if l in I else 0):
            out.append(fail("dominating_sum", "l=%s: sum of dominating coefficients %s, in set: %s" % (l, s, l in I), key))
            break
    if sum(got.values()) != 1:
        out.append(fail("coefficients_sum_one", "sum=%s" % sum(got.values()), key))
    return out


def _request(config, history, l, as_array=False):
    """one transition: replay history, issue request l, compare with the model, check invariants"""
    d, lmin = config["d"], config["lmin"]
    key = {"d": d, "lmin_zero": lmin == 0}
    cs, old, act = _build(config, history)
    before = (set(cs.old_index_set), set(cs.active_index_set), cs.lmax_adaptive)
    arg = np.array(l, dtype=int) if as_array else list(l)
    r = cs.update_adaptive_combi(arg)
    mo, ma, md = ref.update(old, act, tuple(l), lmin, d)
    fails = []
    if r != md:
        fails.append(fail("lockstep_return", "request %s returned %r, model %r" % (l, r, md), key))
    if cs.old_index_set != mo or cs.active_index_set != ma:
        fails.append(fail("lockstep_sets", "request %s: old %s active %s; model old %s active %s"
                          % (l, sorted(cs.old_index_set), sorted(cs.active_index_set), sorted(mo), sorted(ma)), key))
    if md is None and (cs.old_index_set, cs.active_index_set, cs.lmax_adaptive) != before:
        fails.append(fail("nonrefinable_changes_state", "request %s is not refinable but changed the state" % (l,), key))
    if md is not None:
        want = max([before[2]] + [l[k] + 1 for k in md])
        if cs.lmax_adaptive != want:
            fails.append(fail("lmax_adaptive", "lmax_adaptive %s expected %s" % (cs.lmax_adaptive, want), key))
    fails += _invariants(cs, lmin, d, key)
    canon = (tuple(sorted(cs.old_index_set)), tuple(sorted(cs.active_index_set)))
    return fails, canon, md


def _box(config, I):
    lmin, d = config["lmin"], config["d"]
    L = max(max(l) for l in I) + 1
    return itertools.product(range(max(lmin - 1, 0), L + 1), repeat=d)


def _reuse_case(case):
    """ONE CombiScheme object: a sequence of closed-form requests (lmin,lmax) and adaptive (re-)initialisations; every answer must equal
    the reference model (and hence a fresh object's answer)"""
    from sparseSpACE.combiScheme import CombiScheme
    d = case["config"]["d"]
    key = {"d": d, "oracle_kind": "object_reuse"}
    fails = []
    cs = CombiScheme(d)
    twin = CombiScheme(d)          # receives the valid operations only
    for step, op in enumerate(case["ops"]):
        kind, lmin, lmax = op
        if kind == "refused_init":
            # an initialisation request the class refuses (maximum below minimum level, negative level): the caller catches the
            # exception; the object must be what it was - same sets, same scheme, same answer to the next refinement request
            try:
                cs.init_adaptive_combi_scheme(lmax, lmin)
                refused = False
            except Exception:
                refused = True
            if not refused:
                continue        # accepted after all: nothing to compare (the twin did not get it)
            same = cs.initialized_adaptive == twin.initialized_adaptive
            if same and cs.initialized_adaptive:
                same = (cs.old_index_set == twin.old_index_set and cs.active_index_set == twin.active_index_set and
                        _scheme_dict(cs.getCombiScheme(do_print=False)) == _scheme_dict(twin.getCombiScheme(do_print=False)))
                if same and cs.active_index_set:
                    a0 = sorted(cs.active_index_set)[-1]
                    r1, r2 = cs.update_adaptive_combi(list(a0)), twin.update_adaptive_combi(list(a0))
                    same = (r1 == r2 and cs.old_index_set == twin.old_index_set and cs.active_index_set == twin.active_index_set and
                            _scheme_dict(cs.getCombiScheme(do_print=False)) == _scheme_dict(twin.getCombiScheme(do_print=False)))
            elif same:
                same = _scheme_dict(cs.getCombiScheme(1, 2, do_print=False)) == _scheme_dict(twin.getCombiScheme(1, 2, do_print=False))
            if not same:
                fails.append(fail("refused_initialisation_changes_object", "ops %r step %d: after the refused init_adaptive_combi_scheme(%d,%d) the object differs from "
                                  "one that never received the request" % (case["ops"][:step + 1], step, lmax, lmin), key))
                break
            continue
        if kind == "closed":
            if cs.initialized_adaptive:
                continue          # after an adaptive initialisation getCombiScheme ignores lmin/lmax by design
            got = _scheme_dict(cs.getCombiScheme(lmin, lmax, do_print=False))
            want = ref.standard_scheme(d, lmin, lmax)
            if got != want:
                fails.append(fail("reused_object_closed_form", "ops %r step %d: closed form (%d,%d) = %r, reference %r" % (case["ops"][:step + 1], step, lmin, lmax, sorted(got.items()), sorted(want.items())), key))
                break
        else:
            cs.init_adaptive_combi_scheme(lmax, lmin)
            twin.init_adaptive_combi_scheme(lmax, lmin)
            old, act = ref.initial_sets(d, lmin, lmax)
            got = _scheme_dict(cs.getCombiScheme(do_print=False))
            if cs.old_index_set != old or cs.active_index_set != act or got != ref.standard_scheme(d, lmin, lmax):
                fails.append(fail("reused_object_reinitialisation", "ops %r step %d: state after init(%d,%d) differs from a fresh object" % (case["ops"][:step + 1], step, lmax, lmin), key))
                break
            # one refinement in between so that a later re-initialisation has something to forget
            a0 = sorted(cs.active_index_set)[0]
            cs.update_adaptive_combi(list(a0))
            twin.update_adaptive_combi(list(a0))
    return {"failures": fails, "canon": ("reuse", core.config_key(case["config"]), tuple(map(tuple, case["ops"]))), "succ": [], "evals": len(case["ops"])}


def run_case(case):
    if "ops" in case:
        return _reuse_case(case)
    config, history = case["config"], [tuple(l) for l in case["history"]]
    d, lmin, lmax = config["d"], config["lmin"], config["lmax"]
    try:
        if "request" in case:       # single transition (replay form)
            fails, canon, md = _request(config, history, tuple(case["request"]), case.get("as_array", False))
            return {"failures": fails, "canon": canon, "outcome": (canon, md)}
        # expand: all requests of the box from the state reached by `history`
        cs, old, act = _build(config, history)
    except Diverged as e:
        return {"failures": [fail("lockstep_history", "history %r: implementation and reference model differ after request %r" % (history, e.args[0]),
                                  {"d": d, "lmin_zero": lmin == 0})], "canon": None, "succ": []}
    fails = []
    if not history:
        key = {"d": d, "lmin_zero": lmin == 0}
        from sparseSpACE.combiScheme import CombiScheme
        std = _scheme_dict(CombiScheme(d).getCombiScheme(lmin, lmax, do_print=False))
        stdlist = CombiScheme(d).getCombiScheme(lmin, lmax, do_print=False)
        ada = _scheme_dict(cs.getCombiScheme(do_print=False))
        if len(std) != len(stdlist):
            fails.append(fail("closed_form_duplicates", "closed form returns a level vector twice", key))
        if std != ada or std != ref.standard_scheme(d, lmin, lmax):
            fails.append(fail("closed_form_equals_adaptive", "closed form %s adaptive %s model %s"
                              % (sorted(std.items()), sorted(ada.items()), sorted(ref.standard_scheme(d, lmin, lmax).items())), key))
        if (cs.old_index_set, cs.active_index_set) != ref.initial_sets(d, lmin, lmax):
            fails.append(fail("initial_sets", "initial old/active sets differ from the model", key))
        fails += _invariants(cs, lmin, d, key)
    succ = []
    n = 0
    for i, l in enumerate(_box(config, old | act)):
        as_array = (i % 7 == 3)
        f, canon, md = _request(config, history, l, as_array)
        n += 1
        for x in f:
            x["case"] = {"config": config, "history": [list(h) for h in history], "request": list(l), "as_array": as_array}
        fails += f
        succ.append((list(l), canon, md is not None, md))
    return {"failures": fails, "succ": succ, "evals": n, "canon": (tuple(sorted(old)), tuple(sorted(act)))}


def configs(tier):
    out = []
    dims = [1, 2, 3] if tier == "quick" else [1, 2, 3, 4]
    for d in dims:
        for lmin in (0, 1, 2):
            for lmax in range(lmin, lmin + 4):
                if tier == "quick":
                    D = {1: 5, 2: 5, 3: 3}[d]
                    if d == 3 and lmax - lmin > 2:
                        continue
                else:
                    D = {1: 7, 2: 6, 3: 4, 4: 2}[d]
                    if d == 4 and lmax - lmin > 1:
                        continue
                    if d == 3 and lmax - lmin == 3:
                        D = 3
                out.append(({"d": d, "lmin": lmin, "lmax": lmax}, D))
    for d in (1, 2, 3):          # larger minimum levels: closed form and the first two refinement layers only
        for lmin in (3, 4):
            for lmax in range(lmin, lmin + 3):
                out.append(({"d": d, "lmin": lmin, "lmax": lmax}, 1))
    # higher dimensions (d = 4 in the quick tier, 5 and 6 in both): initial state and the first refinement layer (depth 0: requests only)
    for d, spans in ((4, (0, 1, 2)), (5, (0, 1, 2)), (6, (0, 1))):
        if d == 4 and tier != "quick":
            continue
        for lmin in (1, 2):
            for span in spans:
                if tier == "quick" and ((d == 5 and span == 2) or (d == 6 and span == 1 and lmin == 2)):
                    continue                    # (a single state of d=5, span 2 costs a minute: thorough tier only)
                out.append(({"d": d, "lmin": lmin, "lmax": lmin + span}, 1 if d == 4 else 0))
    return out


def main(ctx):
    ctx.determinism_probe({"config": {"d": 2, "lmin": 1, "lmax": 2}, "history": [[2, 1], [3, 1]], "request": [1, 2]})
    total_requests = 0
    refinable = 0
    for config, D in configs(ctx.tier):
        tag = "d%d_lmin%d_lmax%d" % (config["d"], config["lmin"], config["lmax"])
        seen = set()
        frontier = [[]]
        depth_done = 0
        for level in range(D + 1):
            tasks = [{"config": config, "history": h} for h in frontier]
            results = ctx.map(tasks)
            nxt = []
            for task, res in zip(tasks, results):
                if level == 0:
                    seen.add(core.digest(res["canon"]))
                ctx.absorb(task, res, state_key=(tag, res["canon"]), count_transition=False, trace=True, group=tag)
                for l, canon, effective, md in res.get("succ", []):
                    ctx.transitions += 1
                    total_requests += 1
                    if effective:
                        refinable += 1
                        k = core.digest(canon)
                        ctx.outcomes.add(core.digest((canon, md)))
                        if k not in seen:
                            seen.add(k)
                            ctx.states.add(core.digest((tag, canon)))
                            ctx.nontrivial.add(core.digest((tag, canon)))
                            if level < D:
                                nxt.append(task["history"] + [l])
                            if level >= 2 and len(ctx.samples) < 5 and len(seen) % 17 == 0:
                                ctx.add_sample({"config": config, "history": task["history"], "request": l})
            frontier = nxt
            depth_done = level
            if not frontier:
                break
            if ctx.out_of_time():
                ctx.caps.append("time budget reached in %s after depth %d" % (tag, level))
                break
        ctx.bounds[tag] = {"effective_refinement_depth": depth_done + 1, "states": len(seen)}
    # object reuse: every ordered pair / triple of closed-form requests on ONE CombiScheme object, and re-initialisations
    pairs = [(1, 1), (1, 2), (1, 3), (2, 3), (2, 4), (3, 4), (0, 2)]
    reuse = []
    for d in (1, 2, 3):
        for n in (2, 3):
            for seq in itertools.product(pairs, repeat=n):
                reuse.append({"config": {"d": d}, "history": [], "ops": [["closed", a, b] for a, b in seq]})
        for seq in itertools.product(pairs[:5], repeat=2):
            reuse.append({"config": {"d": d}, "history": [], "ops": [["init", a, b] for a, b in seq]})
    # refused initialisation requests between valid operations (swapped arguments, negative levels), on fresh and initialised objects
    bad = [(3, 1), (2, 0), (1, -1), (4, 2)]          # (lmin, lmax) pairs that init_adaptive_combi_scheme refuses
    for d in (1, 2, 3):
        for b in bad:
            reuse.append({"config": {"d": d}, "history": [], "ops": [["refused_init", b[0], b[1]], ["closed", 1, 2]]})
            for first in pairs[:5]:
                reuse.append({"config": {"d": d}, "history": [], "ops": [["init", first[0], first[1]], ["refused_init", b[0], b[1]]]})
                reuse.append({"config": {"d": d}, "history": [], "ops": [["init", first[0], first[1]], ["refused_init", b[0], b[1]], ["init", 1, 2]]})
    for task, res in zip(reuse, ctx.map(reuse)):
        ctx.absorb(task, res, state_key=res["canon"], group="object_reuse")
    ctx.bounds["object_reuse_sequences"] = len(reuse)
    ctx.notes.append("requests issued: %d, of which refinable: %d" % (total_requests, refinable))
    return ctx.finish(
        rule="state = (old,active) index sets reached by a history of effective refinements from every (d,lmin,lmax) start; "
             "in every expanded state ALL level vectors of the box [max(lmin-1,0)..L+1]^d are requested (refinable, old, "
             "inadmissible, below lmin, outside); non-trivial = distinct index-set state reached by at least one effective refinement",
        assumptions=["dimension <= 4 (quick: 3), lmin <= 2, lmax-lmin <= 3, depth bounds per configuration in bounds_completed",
                     "reference model: mc/refmodels/indexset.py (definition of admissibility and inclusion-exclusion coefficients)"])
