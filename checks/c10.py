"""C10 - hierarchical bases interpolate: surpluses reproduce every nodal value.

Exhaustive enumeration: (global) every refinement tree of the families of C09 (1D) and pairs of small trees (2D) x
{Lagrange p=1,2,3,5 ; B-spline p=1,3,5} x boundary on/off; (local) LagrangeGrid/BSplineGrid on the level/sub-box lattice
of C08.  Oracle: hierarchise the IDENTITY (vector-valued function with one component per grid point) and interpolate at
all grid points -> identity (=> every vector-valued function, unique solvability); Lagrange bases are 1 at their own knot
and 0 at the other knots; first derivatives agree with central differences and basis integrals with composite Gauss
quadrature of the basis values; monomials up to degree q<=p are reproduced off the grid whenever the grid contains a
complete dyadic level with >= q+1 points.
"""
import itertools

import numpy as np
from numpy.polynomial.legendre import leggauss

from mc import core, trees
from mc.core import fail

PID = "C10"
GX, GW = leggauss(20)
KINDS = [("lagrange", 1), ("lagrange", 2), ("lagrange", 3), ("lagrange", 5), ("bspline", 1), ("bspline", 3), ("bspline", 5)]


def _global_grid(kind, a, b, boundary):
    from sparseSpACE import Grid as G
    a, b = np.array(a, dtype=float), np.array(b, dtype=float)
    if kind[0] == "lagrange":
        return G.GlobalLagrangeGrid(a, b, boundary=boundary, p=kind[1])
    return G.GlobalBSplineGrid(a, b, boundary=boundary, p=kind[1])


def _local_grid(kind, a, b, boundary):
    from sparseSpACE import Grid as G
    a, b = np.array(a, dtype=float), np.array(b, dtype=float)
    if kind[0] == "lagrange":
        return G.LagrangeGrid(a, b, boundary=boundary, p=kind[1])
    return G.BSplineGrid(a, b, boundary=boundary, p=kind[1])


def _identity_function(pts, integer=False):
    """all nodal unit functions as ONE vector-valued function; integer=True: the values are returned with an integer dtype (counts,
    labels, indicator functions are legal vector-valued functions - the surpluses of such a function are not integers)"""
    from sparseSpACE.Function import CustomFunction
    index = {tuple(float(t) for t in p): i for i, p in enumerate(pts)}
    n = len(pts)

    def unit(x):
        v = np.zeros(n, dtype=int) if integer else np.zeros(n)
        i = index.get(tuple(float(t) for t in x))
        if i is not None:
            v[i] = 1
        return v
    return CustomFunction(unit, output_length=n)


def _basis_checks(basis_list, coords, a, b, key, fails, gauss):
    """per-basis oracles in one dimension"""
    from sparseSpACE.BasisFunctions import LagrangeBasis
    cs = sorted(set([a, b] + [float(c) for c in coords]))
    for bi, bas in enumerate(basis_list):
        if isinstance(bas, LagrangeBasis):
            kn = [float(k) for k in bas.knots]
            own = kn[bas.index]
            if not (abs(bas(own) - 1.0) <= 1e-10):
                fails.append(fail("lagrange_one_at_own_knot", "basis %d knots %r index %d: value %r" % (bi, kn, bas.index, bas(own)), key))
                return
            for j, k in enumerate(kn):
                if j != bas.index and not (abs(bas(k)) <= 1e-10) and not np.isinf(k):
                    inside = True
                    if hasattr(bas, "point_in_support"):
                        inside = bas.point_in_support(k)
                    if inside:
                        fails.append(fail("lagrange_zero_at_other_knots", "basis %d knots %r index %d: value at knot %r is %r" % (bi, kn, bas.index, k, bas(k)), key))
                        return
        # derivative vs central difference at points strictly between consecutive grid/knot coordinates
        brk = sorted(set(cs + [float(k) for k in getattr(bas, "knots", []) if a <= k <= b and not np.isinf(k)]))
        for lo, hi in zip(brk[:-1], brk[1:]):
            for t in (0.3, 0.71):
                x = lo + t * (hi - lo)
                h = 1e-4 * (hi - lo)        # relative to the local mesh width (the basis is a polynomial of low degree there)
                try:
                    d_impl = bas.get_first_derivative(x)
                except NotImplementedError:
                    d_impl = None
                if d_impl is None:
                    continue
                xp, xm = x + h, x - h       # the step actually taken in floating point (coordinates far from the origin round it)
                d_num = (bas(xp) - bas(xm)) / (xp - xm)
                if not (abs(d_impl - d_num) <= 1e-5 * max(1.0 / (hi - lo), abs(d_num))):
                    fails.append(fail("first_derivative", "basis %d at x=%r: get_first_derivative %r, central difference %r" % (bi, x, d_impl, d_num), key))
                    return
                # second derivative vs central difference of the first derivative (same points, same local step)
                try:
                    dd_impl = bas.get_second_derivative(x)
                except (NotImplementedError, AttributeError):
                    dd_impl = None
                if dd_impl is not None:
                    dd_num = (bas.get_first_derivative(xp) - bas.get_first_derivative(xm)) / (xp - xm)
                    if not (abs(dd_impl - dd_num) <= 1e-5 * max(1.0 / (hi - lo) ** 2, abs(dd_num))):
                        fails.append(fail("second_derivative", "basis %d at x=%r: get_second_derivative %r, central difference of the first derivative %r" % (bi, x, dd_impl, dd_num), key))
                        return
        # integral vs composite Gauss-20 on every piece
        ref = 0.0
        for lo, hi in zip(brk[:-1], brk[1:]):
            xs = lo + (GX + 1) * (hi - lo) / 2
            ref += float(np.dot(GW, [bas(x) for x in xs])) * (hi - lo) / 2
        val = bas.get_integral(a, b, gauss[0], gauss[1])
        if not (abs(val - ref) <= 1e-9 * (b - a)):
            fails.append(fail("basis_integral", "basis %d: get_integral %r, numerical integral of the basis values %r" % (bi, val, ref), key))
            return


def _global_case(c):
    from sparseSpACE.ComponentGridInfo import ComponentGridInfo
    from sparseSpACE.Function import CustomFunction
    kind, bd = tuple(c["basis"]), c["boundary"]
    ts = c["trees"]
    d = len(ts)
    a, b = c["a"], c["b"]
    key = {"grid": "global_" + kind[0], "p": kind[1], "boundary": bd}
    fails = []
    g = _global_grid(kind, a, b, bd)
    coords = [list(t[0]) for t in ts]
    lvs = [list(t[1]) for t in ts]
    g.set_grid(coords, lvs)
    pts = [tuple(float(x) for x in p) for p in g.getPoints()]
    N = len(pts)
    if N == 0:
        return fails, (0,)
    lv = [max(l) for l in lvs]
    f = _identity_function(pts)
    g.integrate(f, lv, np.array(a, dtype=float), np.array(b, dtype=float))
    V = np.asarray(g.interpolate(pts, ComponentGridInfo(lv, 1)))
    err = np.abs(V - np.eye(N))
    if not np.max(err) <= 1e-9:
        i, j = np.unravel_index(int(np.argmax(err)), err.shape)
        fails.append(fail("hierarchise_interpolate_identity", "unit function of %r at %r: %r" % (pts[j], pts[i], V[i, j]), key))
    fails += _layout_failures(g, d, N, key)
    # the same identity with integer-typed function values
    g.integrate(_identity_function(pts, integer=True), lv, np.array(a, dtype=float), np.array(b, dtype=float))
    Vi = np.asarray(g.interpolate(pts, ComponentGridInfo(lv, 1)), dtype=float)
    if not np.max(np.abs(Vi - np.eye(N))) <= 1e-9:
        i, j = np.unravel_index(int(np.argmax(np.abs(Vi - np.eye(N)))), Vi.shape)
        fails.append(fail("hierarchise_interpolate_identity", "integer-valued unit function of %r at %r: %r" % (pts[j], pts[i], Vi[i, j]), dict(key, value_dtype="int")))
    if d == 1:
        gauss = (g.coords_gauss, g.weights_gauss)
        _basis_checks(list(g.basis[0]), coords[0], a[0], b[0], key, fails, gauss)
        if kind[0] == "bspline" and not bd and 4 <= len(coords[0]) <= (9 if kind[1] <= 3 else 7):   # (its evaluation cost doubles with every level)
            # the modified hierarchical B-spline basis (boundary points off): only the statement about derivatives and integrals of the
            # basis functions is demanded of it (its interpolation properties are C09's business)
            from sparseSpACE import Grid as G
            gm = G.GlobalBSplineGrid(np.array(a, dtype=float), np.array(b, dtype=float), boundary=False, modified_basis=True, p=kind[1])
            gm.set_grid(coords, lvs)
            _basis_checks(list(gm.basis[0]), coords[0], a[0], b[0], dict(key, modified_basis=True), fails, (gm.coords_gauss, gm.weights_gauss))
        # polynomial reproduction off the grid (boundary points on)
        if bd:
            m = trees.is_complete_level(coords[0], a[0], b[0])
            if not c.get("dyadic_levels", True):
                m = 0          # rotated labelling: only constants and linear functions are demanded
            p = kind[1]
            fm = CustomFunction(lambda x: [float(x[0]) ** q for q in range(p + 1)], output_length=p + 1)
            g2 = _global_grid(kind, a, b, bd)
            g2.set_grid(coords, lvs)
            g2.integrate(fm, lv, np.array(a, dtype=float), np.array(b, dtype=float))
            lat = [(a[0] + t * (b[0] - a[0]),) for t in (0.05, 0.21, 1 / 3, 0.47, 0.6, 0.77, 0.93)]
            W = np.asarray(g2.interpolate(lat, ComponentGridInfo(lv, 1)))
            for q in range(p + 1):
                if q <= 1 or 2 ** m + 1 >= q + 1:
                    want = np.array([x[0] ** q for x in lat])
                    if not (np.max(np.abs(W[:, q] - want)) <= 1e-8 * max(1.0, abs(a[0]), abs(b[0])) ** q):
                        i = int(np.argmax(np.abs(W[:, q] - want)))
                        fails.append(fail("polynomial_reproduction", "x^%d at %r: %r, exact %r (points %r, complete level %d)" % (q, lat[i], W[i, q], want[i], coords[0], m),
                                          dict(key, degree=("linear" if q <= 1 else "higher"))))
                        break
    return fails, (N,)


def _layout_failures(g, d, N, key):
    """direct call HierarchizationLSG(grid)(values, numPoints, grid): the surpluses must not depend on the memory layout of the value
    array (C-contiguous as the integrator allocates it, Fortran-ordered, or the transposed view a caller gets from stacking the
    function values point by point)"""
    from sparseSpACE.Hierarchization import HierarchizationLSG
    try:
        npts = [len(g.get_coordinates_dim(k)) for k in range(d)]
    except Exception:
        return []
    if N < 2 or int(np.prod(npts)) != N:
        return []
    nc = min(N, 3)
    base = np.array([[(1.0 if i == j else 0.0) + 0.01 * (i + 2 * j + 1) for j in range(N)] for i in range(nc)])      # values[component, point]
    try:
        ref = np.array(HierarchizationLSG(g)(np.ascontiguousarray(base.copy()), list(npts), g), dtype=float)
    except Exception:
        return []          # no direct call possible for this grid: nothing to compare
    out = []
    for name, arr in (("fortran", np.asfortranarray(base.copy())), ("transposed", np.array([base[:, j].copy() for j in range(N)]).T)):
        try:
            got = np.array(HierarchizationLSG(g)(arr, list(npts), g), dtype=float)
        except Exception as e:
            out.append(fail("hierarchisation_depends_on_array_layout", "%s value array: %s: %s" % (name, type(e).__name__, str(e)[:100]), dict(key, layout=name)))
            continue
        if got.shape != ref.shape or not np.allclose(got, ref, rtol=1e-10, atol=1e-12):
            out.append(fail("hierarchisation_depends_on_array_layout", "%s value array (%d components, %r points): surpluses %r, with a C-contiguous array %r"
                            % (name, nc, npts, got.ravel()[:4].tolist(), ref.ravel()[:4].tolist()), dict(key, layout=name)))
    return out


def _local_case(c):
    kind, bd = tuple(c["basis"]), c["boundary"]
    a, b, s, e, lv = c["a"], c["b"], c["start"], c["end"], c["level"]
    d = len(a)
    key = {"grid": "local_" + kind[0], "p": kind[1], "boundary": bd}
    fails = []
    g = _local_grid(kind, a, b, bd)
    S, E = np.array(s, dtype=float), np.array(e, dtype=float)
    g.setCurrentArea(S, E, list(lv))
    pts = [tuple(float(x) for x in p) for p in g.getPoints()]
    N = len(pts)
    if N == 0:
        return fails, (0,)
    f = _identity_function(pts)
    g.integrate(f, list(lv), S, E)
    V = np.asarray(g.interpolate(pts, S, E, list(lv)))
    err = np.abs(V - np.eye(N))
    if not np.max(err) <= 1e-9:
        i, j = np.unravel_index(int(np.argmax(err)), err.shape)
        fails.append(fail("hierarchise_interpolate_identity", "unit function of %r at %r: %r" % (pts[j], pts[i], V[i, j]), key))
    fails += _layout_failures(g, d, N, key)
    if d == 1:
        g1 = g.grids[0]
        gauss = (getattr(g1, "coords_gauss", None), getattr(g1, "weights_gauss", None))
        if gauss[0] is not None:
            _basis_checks(list(g1.splines), [p[0] for p in pts], s[0], e[0], key, fails, gauss)
    return fails, (N,)


def _reuse_case(c):
    """ONE global grid object serves two refinement trees with the same points but different (rotated) level labellings:
    hierarchise + interpolate the identity after each set_grid; the second answer must still be the identity"""
    from sparseSpACE.ComponentGridInfo import ComponentGridInfo
    kind, bd = tuple(c["basis"]), c["boundary"]
    a, b = c["a"], c["b"]
    key = {"grid": "global_" + kind[0], "p": kind[1], "boundary": bd, "oracle_kind": "object_reuse"}
    fails = []
    g = _global_grid(kind, a, b, bd)
    n_pts = 0
    for step, (pts, lv) in enumerate(c["sequence"]):
        g.set_grid([list(pts)], [list(lv)])
        P = [tuple(float(x) for x in p) for p in g.getPoints()]
        n_pts = len(P)
        if not P:
            continue
        f = _identity_function(P)
        g.integrate(f, [max(lv)], np.array(a, dtype=float), np.array(b, dtype=float))
        V = np.asarray(g.interpolate(P, ComponentGridInfo([max(lv)], 1)))
        err = np.abs(V - np.eye(len(P)))
        if not np.max(err) <= 1e-9:
            i, j = np.unravel_index(int(np.argmax(err)), err.shape)
            fails.append(fail("hierarchise_interpolate_identity", "step %d of %r on one grid object: unit function of %r at %r is %r" % (step, c["sequence"], P[j], P[i], V[i, j]), key))
            break
    return fails, (n_pts,)


def run_case(case):
    c = case["config"]
    fails, out = {"global": _global_case, "local": _local_case, "reuse": _reuse_case}[c["kind"]](c)
    return {"failures": fails, "canon": core.config_key(c), "outcome": out, "nontrivial": out[0] > 1, "evals": max(1, out[0])}


def cases(tier):
    from checks import c08
    q = tier == "quick"
    out = []
    T1 = trees.tree_family(3 if q else 4, 5 if q else 7, 0.0, 1.0)
    T1b = trees.tree_family(3, 4, -3.0, 6.0)
    # an interval far from the origin and strongly graded chains (mesh width tiny relative to the coordinates / to comparison tolerances)
    T1c = trees.tree_family(3, 4, 1048576.0, 1048577.0) + trees.graded_chains(9 if q else 12, 1000.0, 1001.0, start=5)
    T1d = trees.graded_chains(12 if q else 16, 0.0, 1.0, fractions=(0.0, 1.0 / 3.0), start=8)
    for kind in KINDS:
        for bd in (True, False):
            for (a, b, T) in ((0.0, 1.0, T1), (-3.0, 6.0, T1b), (None, None, T1c), (0.0, 1.0, T1d)):
                for t in T:
                    if not bd and len(t[0]) < 3:
                        continue
                    if kind[1] >= 5 and T is T1d and len(t[0]) > 14:
                        continue        # degree-5 bases on knot ratios beyond 2^12: the collocation systems are too ill conditioned for a 1e-9 oracle
                    aa, bb = (t[0][0], t[0][-1]) if a is None else (a, b)
                    out.append({"config": {"kind": "global", "basis": list(kind), "boundary": bd, "a": [aa], "b": [bb], "trees": [list(t)]}})
            if kind[1] <= 3:
                T2 = trees.all_trees_depth(2, 0.0, 1.0) + ([] if q else trees.catalan_trees(3, 0.0, 1.0, nmin=3))
                T2b = trees.all_trees_depth(2, 2.0, 4.0) + ([] if q else trees.catalan_trees(3, 2.0, 4.0, nmin=3))
                for t0 in T2:
                    for t1 in T2b:
                        out.append({"config": {"kind": "global", "basis": list(kind), "boundary": bd, "a": [0.0, 2.0], "b": [1.0, 4.0],
                                               "trees": [list(t0), list(t1)]}})
    # one deep complete tree with 17 points so that the QR branch of the hierarchisation (>= 15 points) runs
    deep = trees.all_trees_depth(4, 0.0, 1.0)[-1]
    for kind in KINDS:
        for bd in (True, False):
            out.append({"config": {"kind": "global", "basis": list(kind), "boundary": bd, "a": [0.0], "b": [1.0], "trees": [list(deep)]}})
    # object reuse with rotated level labellings (what the default rebalancing of the dimension-wise strategy produces)
    point_sets = [[0.0, 0.25, 0.5, 0.75, 1.0], [0.0, 0.125, 0.25, 0.5, 1.0], [0.0, 0.5, 0.75, 1.0], [0.0, 0.25, 0.5, 1.0]]
    if not q:
        point_sets += [[0.0, 0.25, 0.375, 0.5, 0.75, 1.0], [0.0, 0.0625, 0.125, 0.25, 0.5, 1.0]]
    for kind in KINDS:
        if kind[1] > 3:
            continue
        for pts in point_sets:
            labs = trees.level_assignments(len(pts) - 2)
            for l1 in labs:
                for l2 in labs:
                    if l1 != l2:
                        out.append({"config": {"kind": "reuse", "basis": list(kind), "boundary": True, "a": [0.0], "b": [1.0],
                                               "sequence": [[pts, l1], [pts, l2]]}})
    # local grids
    for kind in KINDS:
        if kind[1] > 3:
            continue
        # local hierarchical grids cannot be set up with boundary=False at all (setCurrentArea/integrate raise on every level and
        # sub-box); an unconstructible configuration is a refusal, not an interpolation result -> local grids with boundary points
        for bd in (True,):
            for a, b in (([0.0], [1.0]), ([-1.0], [3.0])):
                for lv in range(1 if not bd else 0, 5):
                    for (s, e) in c08.sub_boxes_1d(a[0], b[0], 2):
                        out.append({"config": {"kind": "local", "basis": list(kind), "boundary": bd, "a": a, "b": b, "start": [s], "end": [e], "level": [lv]}})
            a, b = [0.0, 2.0], [1.0, 4.0]
            for lv in itertools.product(range(1, 3 if q else 4), repeat=2):
                for box in itertools.product(c08.sub_boxes_1d(0.0, 1.0, 1), c08.sub_boxes_1d(2.0, 4.0, 1)):
                    out.append({"config": {"kind": "local", "basis": list(kind), "boundary": bd, "a": a, "b": b,
                                           "start": [x[0] for x in box], "end": [x[1] for x in box], "level": list(lv)}})
    return out


def main(ctx):
    cs = cases(ctx.tier)
    ctx.determinism_probe(cs[len(cs) // 3])
    results = ctx.map(cs)
    for case, res in zip(cs, results):
        c = case["config"]
        ctx.absorb(case, res, group="%s_%s%d" % (c["kind"], c["basis"][0], c["basis"][1]))
    for i in (2, len(cs) // 2, len(cs) - 3):
        ctx.add_sample(cs[i])
    ctx.bounds = {"cases": len(cs), "global": sum(1 for c in cs if c["config"]["kind"] == "global"),
                  "local": sum(1 for c in cs if c["config"]["kind"] == "local"),
                  "reuse": sum(1 for c in cs if c["config"]["kind"] == "reuse"), "bases": [list(k) for k in KINDS]}
    return ctx.finish(
        rule="one case = one grid (refinement tree(s) x basis family x order x boundary flag, or local level/sub-box); the identity "
             "(one component per grid point) is hierarchised and interpolated, every basis function is checked individually "
             "(evaluations = grid points); non-trivial = grid with more than one point",
        assumptions=["polynomial reproduction demanded with boundary points and a complete dyadic level with >= q+1 points (same reading as C09)",
                     "derivative tolerance 1e-5 relative (central differences), integrals 1e-9, identity 1e-9",
                     "modified-basis variants are out of scope (see DESIGN.md C09)"])
