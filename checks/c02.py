"""C02 - the standard combination equals the sparse-grid interpolant.

Exhaustive lattice d x (1<=lmin<=lmax) x box x boundary for StandardCombi + TrapezoidalGrid.  Functions are not
sampled: by linearity the statement is decided on (b) ALL nodal unit functions of the sparse grid (reproduction of an
arbitrary function at every sparse-grid point, point-wise and via interpolate_grid) and (c) ALL hierarchical hats of
the sparse-grid space (exact integral, exact interpolation off the grid), carried as components of vector-valued
functions.
"""
import itertools

import numpy as np

from mc import core
from mc.core import fail
from mc.refmodels import hats, indexset

PID = "C02"
LATTICE_1D = [0.1, 1 / 3, 0.6, 0.85]


def _ref_sparse_grid(d, lmin, lmax, a, b, boundary):
    old, act = indexset.initial_sets(d, lmin, lmax)
    pts = set()
    for l in old | act:
        axes = []
        for k in range(d):
            n = 2 ** l[k]
            idx = range(0, n + 1) if boundary else range(1, n)
            axes.append([a[k] + i * (b[k] - a[k]) / n for i in idx])
        pts.update(itertools.product(*axes))
    return pts


def run_case(case):
    from sparseSpACE.StandardCombi import StandardCombi
    from sparseSpACE.GridOperation import Integration
    from sparseSpACE.Grid import TrapezoidalGrid
    from sparseSpACE.Function import CustomFunction
    c = case["config"]
    if c.get("kind") == "reuse":
        return _reuse_case(c)
    d, lmin, lmax, boundary = c["d"], c["lmin"], c["lmax"], c["boundary"]
    a, b = np.array(c["a"], dtype=float), np.array(c["b"], dtype=float)
    key = {"boundary": boundary}
    # "boundary points off" handed over in other legal spellings: a numpy bool, the integer 0, or the library's own round trip
    flag_kind = c.get("flag", "bool")
    if flag_kind != "bool":
        key["flag"] = flag_kind
    fails = []

    def combi_for(comps, n):
        flag = {"bool": boundary, "numpy_bool": np.bool_(boundary), "int": int(boundary), "roundtrip": boundary}[flag_kind]
        grid = TrapezoidalGrid(a, b, boundary=flag)
        if flag_kind == "roundtrip":
            grid.set_boundaries(grid.get_boundaries())
        f = CustomFunction(comps, output_length=n)
        op = Integration(f, grid=grid, dim=d)
        sc = StandardCombi(a, b, operation=op, print_output=False, print_level=1000, log_level=1000)
        return sc, op, grid, f
    # (a) points, coefficient sums, announced point numbers
    seen = set()

    def probe(x):
        seen.add(tuple(float(t) for t in x))
        return [1.0]
    sc, op, grid, f = combi_for(probe, 1)
    scheme, err, res = sc.perform_operation(lmin, lmax)
    cnt = {}
    for comp in scheme:
        P = sc.get_points_component_grid(comp.levelvector)
        announced = int(np.prod(grid.levelToNumPoints(comp.levelvector)))
        if len(P) != announced or len(set(map(tuple, P))) != len(P):
            fails.append(fail("announced_point_number", "component %r: %d points returned (%d distinct), %d announced" % (tuple(comp.levelvector), len(P), len(set(map(tuple, P))), announced), key))
        if sc.get_num_points_component_grid(comp.levelvector, False) != len(P):
            fails.append(fail("get_num_points_component_grid", "component %r: %r vs %d" % (tuple(comp.levelvector), sc.get_num_points_component_grid(comp.levelvector, False), len(P)), key))
        for p in P:
            p = tuple(float(t) for t in p)
            cnt[p] = cnt.get(p, 0) + comp.coefficient
    ref = _ref_sparse_grid(d, lmin, lmax, [float(x) for x in a], [float(x) for x in b], boundary)
    if c.get("inexact"):
        # a box whose bounds are no dyadic rationals: grid coordinates are rounded, so the reference set is matched within a few ulp
        # of the box extent - but as a BIJECTION: the same sparse-grid point computed by two component grids must be one point
        key["inexact_box"] = True
        tol = [16 * np.finfo(float).eps * max(abs(float(a[k])), abs(float(b[k])), 1e-300) for k in range(d)]
        refl = sorted(ref)
        R = np.array(refl, dtype=float).reshape(len(refl), d)
        hit, bad_match = {}, []
        for p in cnt:
            near = np.nonzero(np.all(np.abs(R - np.array(p)) <= tol, axis=1))[0] if len(refl) else []
            if len(near) != 1:
                bad_match.append((p, len(near)))
            else:
                hit.setdefault(int(near[0]), []).append(p)
        dup = {refl[i]: ps for i, ps in hit.items() if len(ps) > 1}
        missing = [refl[i] for i in range(len(refl)) if i not in hit]
        if bad_match or dup or missing:
            fails.append(fail("sparse_grid_points", "union of component points is no bijective image of the sparse grid (%d distinct points, %d in the "
                              "reference): one reference point computed as several floats %r; unmatched %r; missing %r"
                              % (len(cnt), len(ref), sorted(dup.items())[:2], bad_match[:2], missing[:2]), key))
    elif set(cnt) != ref:
        fails.append(fail("sparse_grid_points", "union of component points differs from the sparse grid: %d vs %d; only in impl %r only in ref %r"
                          % (len(cnt), len(ref), sorted(set(cnt) - ref)[:3], sorted(ref - set(cnt))[:3]), key))
    bad = {p: v for p, v in cnt.items() if v != 1}
    if bad:
        fails.append(fail("coefficient_sum_per_point", "%r" % (sorted(bad.items())[:5],), key))
    if seen != set(cnt):
        fails.append(fail("evaluated_points_equal_sparse_grid", "%d evaluated, %d sparse grid points" % (len(seen), len(cnt)), key))
    if sc.get_total_num_points() != len(seen):
        fails.append(fail("total_num_points", "get_total_num_points %r, distinct evaluated points %d" % (sc.get_total_num_points(), len(seen)), key))
    vol = float(np.prod(b - a))
    if not (abs(float(res[0]) - vol) <= 1e-12 * vol) and boundary:
        fails.append(fail("integral_of_one", "integral of 1 is %r, volume %r" % (res, vol), key))
    pts = sorted(cnt)
    N = len(pts)
    # (b) all nodal unit functions
    index = {p: i for i, p in enumerate(pts)}

    def unit(x):
        v = np.zeros(N)
        i = index.get(tuple(float(t) for t in x))
        if i is not None:
            v[i] = 1.0
        return v
    if N:
        sc, op, grid, f = combi_for(unit, N)
        sc.perform_operation(lmin, lmax)
        V = np.asarray(sc(pts))
        e = np.abs(V - np.eye(N))
        if not np.max(e) <= 1e-12:
            i, j = np.unravel_index(int(np.argmax(e)), e.shape)
            fails.append(fail("reproduce_unit_functions", "unit function of %r at %r: %r" % (pts[j], pts[i], V[i, j]), key))
        coords = [sorted({p[k] for p in pts}) for k in range(d)]
        if np.prod([len(x) for x in coords]) <= 4000:
            G = np.asarray(sc.interpolate_grid(coords))
            hull = list(itertools.product(*coords))
            W = np.asarray(sc(hull))
            if G.shape != W.shape or not np.max(np.abs(G - W)) <= 1e-12:
                fails.append(fail("interpolate_grid_equals_pointwise", "max difference %r" % (float(np.max(np.abs(G - W))) if G.shape == W.shape else (G.shape, W.shape),), key))
            rows = [i for i, p in enumerate(hull) if p in index]
            e = np.abs(G[rows] - np.eye(N)[[index[hull[i]] for i in rows]]) if G.shape[0] == len(hull) else np.ones((1, 1))
            if not np.max(e) <= 1e-12:
                fails.append(fail("interpolate_grid_reproduces", "max error %r" % (float(np.max(e)),), key))
    # (c) all hierarchical hats of the sparse grid space
    al, bl = [float(x) for x in a], [float(x) for x in b]
    Bs = hats.sparse_basis(d, lmin, lmax, boundary, al, bl)
    nB = len(Bs)
    if nB:
        sc, op, grid, f = combi_for(lambda x: [hats.ev(h, x) for h in Bs], nB)
        scheme, err, res = sc.perform_operation(lmin, lmax)
        exact = np.array([hats.integral(h) for h in Bs])
        e = np.abs(np.asarray(res, dtype=float) - exact)
        if not np.max(e) <= 1e-12 * max(1.0, vol):
            i = int(np.argmax(e))
            fails.append(fail("hat_integral", "hat %r: %r, exact %r" % (Bs[i], res[i], exact[i]), key))
        # off-grid points, points on grid lines and points exactly on the faces / corners of the domain
        frac = LATTICE_1D if d == 3 else [0.0, 0.1, 1 / 3, 0.5, 0.6, 0.85, 1.0]
        lat = [tuple(bl[k] if t == 1.0 else al[k] + t * (bl[k] - al[k]) for k, t in enumerate(p)) for p in itertools.product(frac, repeat=d)]
        if d == 3:
            lat += [tuple(al), tuple(bl), (al[0], 0.5 * (al[1] + bl[1]), bl[2])]
        got = np.asarray(sc(lat))
        want = np.array([[hats.ev(h, p) for h in Bs] for p in lat])
        e = np.abs(got - want)
        if not np.max(e) <= 1e-12:
            i, j = np.unravel_index(int(np.argmax(e)), e.shape)
            fails.append(fail("hat_interpolation", "hat %r at %r: %r, exact %r" % (Bs[j], lat[i], got[i, j], want[i, j]), key))
        # (d) combined quadrature rule
        P, W = sc.get_points_and_weights()
        pw = np.zeros(nB)
        for p, w in zip(P, W):
            pw += w * np.array([hats.ev(h, p) for h in Bs])
        if not np.max(np.abs(pw - exact)) <= 1e-12 * max(1.0, vol):
            i = int(np.argmax(np.abs(pw - exact)))
            fails.append(fail("points_and_weights_hat_integral", "hat %r: %r, exact %r" % (Bs[i], pw[i], exact[i]), key))
    return {"failures": fails, "canon": core.config_key(c), "outcome": (N, nB, len(scheme)), "nontrivial": lmax > lmin or N > 1,
            "evals": 1 + N + nB}


def _observe(sc, name):
    """call one public observation helper of StandardCombi (output discarded, figures closed, files written into the scratch cwd)"""
    import io
    import contextlib
    import matplotlib.pyplot as plt
    from sparseSpACE.StandardCombi import StandardCombi
    with contextlib.redirect_stdout(io.StringIO()):
        if name == "print_resulting_combi_scheme":
            sc.print_resulting_combi_scheme(filename="obs_scheme")
        elif name == "print_subspaces":
            sc.print_subspaces(filename="obs_subspaces")
        elif name == "print_resulting_sparsegrid":
            sc.print_resulting_sparsegrid(filename="obs_sparsegrid", show_fig=False)
        elif name == "plot":
            sc.plot(filename="obs_plot")
        elif name == "plot_contour":
            sc.plot(filename="obs_contour", contour=True)
        elif name == "check_combi_scheme":
            sc.check_combi_scheme()
        elif name == "get_points_and_weights":
            sc.get_points_and_weights()
        elif name == "get_surplusses":
            sc.get_surplusses()
        elif name == "save_restore":
            sc.save_to_file("obs_saved.dill")
            StandardCombi.restore_from_file("obs_saved.dill")
        elif name == "points_per_component":
            for g in sc.scheme:
                sc.get_points_component_grid(g.levelvector)
                sc.get_points_and_weights_component_grid(g.levelvector)
                sc.get_num_points_component_grid(g.levelvector, False)
        elif name == "refused_out_of_box_interpolation":
            # a request the library refuses (a point outside the box): the exception is the caller's to catch, the object must go on working
            lo, hi = np.array(sc.a, dtype=float), np.array(sc.b, dtype=float)
            try:
                sc([tuple(lo + 0.5 * (hi - lo)), tuple(hi + 0.5 * (hi - lo))])
            except Exception:
                pass
        elif name == "refused_out_of_box_grid_interpolation":
            lo, hi = np.array(sc.a, dtype=float), np.array(sc.b, dtype=float)
            try:
                sc.interpolate_grid([[lo[k] - 1.0, lo[k] + 0.5 * (hi[k] - lo[k])] for k in range(len(lo))])
            except Exception:
                pass
        elif name == "refused_level_range":
            try:
                sc.set_combi_parameters(3, 1)       # lmin > lmax
                sc.get_total_num_points()
            except Exception:
                pass
        else:
            raise core.HarnessError("unknown observer %r" % name)
    plt.close("all")


OBSERVERS = ["print_resulting_combi_scheme", "print_subspaces", "print_resulting_sparsegrid", "plot", "plot_contour", "check_combi_scheme",
             "get_points_and_weights", "get_surplusses", "save_restore", "points_per_component",
             "refused_out_of_box_interpolation", "refused_out_of_box_grid_interpolation"]


def _reuse_case(c):
    """ONE StandardCombi object performs the operation for a sequence of (lmin,lmax) pairs; after each one the scheme, the
    result and the interpolant must equal those of a fresh object"""
    from sparseSpACE.StandardCombi import StandardCombi
    from sparseSpACE.GridOperation import Integration
    from sparseSpACE.Grid import TrapezoidalGrid
    from sparseSpACE.Function import CustomFunction
    d, boundary = c["d"], c["boundary"]
    a, b = np.array(c["a"], dtype=float), np.array(c["b"], dtype=float)
    key = {"boundary": boundary, "oracle_kind": "object_reuse"}
    fails = []
    comps = lambda x: [float(np.sin(2.0 * x[0] + 0.3) * np.exp(0.5 * x[-1])), float(np.prod([xx * xx + 0.1 for xx in x]))]

    def make():
        grid = TrapezoidalGrid(a, b, boundary=boundary)
        op = Integration(CustomFunction(comps, output_length=2), grid=grid, dim=d)
        return StandardCombi(a, b, operation=op, print_output=False, print_level=1000, log_level=1000)
    lat = [tuple(a[k] + t * (b[k] - a[k]) for k, t in enumerate(p)) for p in itertools.product(LATTICE_1D, repeat=d)]
    shared = make()
    fresh = None
    for step, entry in enumerate(c["sequence"]):
        if isinstance(entry, str):
            # a public observer (plot / print / export helper) called on the shared object between two operations: it must not
            # change what the object computes now or later
            _observe(shared, entry)
            if fresh is not None:
                v1, v2 = np.asarray(shared(lat)), np.asarray(fresh(lat))
                if not np.allclose(v1, v2, rtol=1e-13, atol=1e-15) or shared.get_total_num_points() != fresh.get_total_num_points():
                    fails.append(fail("observer_changes_object", "after %s: interpolant / point count differ from a fresh object" % entry, dict(key, observer=entry)))
                    break
            continue
        lmin, lmax = entry
        sch1, _, res1 = shared.perform_operation(lmin, lmax)
        fresh = make()
        sch2, _, res2 = fresh.perform_operation(lmin, lmax)
        s1 = sorted((tuple(int(x) for x in g.levelvector), float(g.coefficient)) for g in sch1)
        s2 = sorted((tuple(int(x) for x in g.levelvector), float(g.coefficient)) for g in sch2)
        if s1 != s2:
            fails.append(fail("reused_object_scheme", "step %d (%d,%d) after %r: scheme %r, fresh object %r" % (step, lmin, lmax, c["sequence"][:step], s1[:4], s2[:4]), key))
            break
        if not np.allclose(np.asarray(res1, dtype=float), np.asarray(res2, dtype=float), rtol=1e-13, atol=1e-15):
            fails.append(fail("reused_object_result", "step %d (%d,%d): %r vs fresh %r" % (step, lmin, lmax, res1, res2), key))
            break
        v1, v2 = np.asarray(shared(lat)), np.asarray(fresh(lat))
        if not np.allclose(v1, v2, rtol=1e-13, atol=1e-15):
            fails.append(fail("reused_object_interpolant", "step %d (%d,%d): max difference %r" % (step, lmin, lmax, float(np.max(np.abs(v1 - v2)))), key))
            break
        if shared.get_total_num_points() != fresh.get_total_num_points():
            fails.append(fail("reused_object_point_count", "step %d (%d,%d): %r vs fresh %r" % (step, lmin, lmax, shared.get_total_num_points(), fresh.get_total_num_points()), key))
            break
    return {"failures": fails, "canon": core.config_key(c), "outcome": (len(c["sequence"]), len(fails)), "nontrivial": True, "evals": len(c["sequence"])}


def cases(tier):
    out = []
    # the last boxes of d=2,3 are chosen so that a bound of one dimension coincides with an interior dyadic coordinate of another
    # ... and one box far from the origin (grid spacing tiny relative to the coordinates: exact vs tolerance-based comparisons)
    boxes = {1: [([0.0], [1.0]), ([-1.0], [3.0]), ([-3.0], [6.0]), ([1048576.0], [1048577.0])],
             2: [([0.0, 0.0], [1.0, 1.0]), ([-1.0, -1.0], [3.0, 3.0]), ([-3.0, 2.0], [6.0, 4.0]), ([-1.0, 0.0], [1.0, 1.0]), ([0.0, 1.0], [2.0, 3.0]),
                 ([1048576.0, 0.0], [1048578.0, 1.0])],
             3: [([0.0, 0.0, 0.0], [1.0, 1.0, 1.0]), ([-1.0, -1.0, -1.0], [3.0, 3.0, 3.0]), ([-3.0, 2.0, 0.0], [6.0, 4.0, 1.0]),
                 ([-2.0, -1.0, 0.0], [2.0, 3.0, 1.0])]}
    maxl = {1: 8, 2: 4, 3: 3} if tier != "quick" else {1: 7, 2: 4, 3: 3}
    for d in (1, 2, 3):
        for lmin in range(1, maxl[d] + 1):
            for lmax in range(lmin, maxl[d] + 1):
                for bi, (a, b) in enumerate(boxes[d]):
                    if tier == "quick" and d == 3 and bi == 1:
                        continue
                    for boundary in (True, False):
                        out.append({"config": {"d": d, "lmin": lmin, "lmax": lmax, "a": a, "b": b, "boundary": boundary}})
                        if d <= 2 and lmax <= 3 and bi in (0, 2):
                            for flag in ("numpy_bool", "int", "roundtrip"):
                                out.append({"config": {"d": d, "lmin": lmin, "lmax": lmax, "a": a, "b": b, "boundary": boundary, "flag": flag}})
    # boxes whose bounds are no dyadic rationals (every grid coordinate is a rounded number; the same point is computed by several
    # component grids through different expressions)
    inexact = {1: [([0.1], [0.7]), ([-1.0838099947183877], [5.15908303411468]), ([1 / 3], [2.2]), ([-0.3], [0.9]), ([1e-3], [1.7e-3]), ([-7.1], [-0.3])],
               2: [([-1.0838099947183877, 0.0], [5.15908303411468, 1.0]), ([0.1, -0.3], [0.7, 0.9]), ([1 / 3, -7.1], [2.2, -0.3])],
               3: [([0.1, -0.3, 1 / 3], [0.7, 0.9, 2.2]), ([0.0, -1.0838099947183877, -7.1], [1.0, 5.15908303411468, -0.3])]}
    for d in (1, 2, 3):
        L = {1: 5, 2: 3, 3: 2 if tier == "quick" else 3}[d]
        for lmin in range(1, L + 1):
            for lmax in range(lmin, L + 1):
                for a, b in inexact[d]:
                    for boundary in (True, False):
                        out.append({"config": {"d": d, "lmin": lmin, "lmax": lmax, "a": a, "b": b, "boundary": boundary, "inexact": True}})
    # object reuse: every ordered pair (and some triples) of level ranges on ONE StandardCombi object
    pairs = [(1, 1), (1, 2), (1, 3), (2, 3), (2, 4), (3, 3), (3, 4)]
    for d, box in ((2, ([-1.0, 0.5], [2.0, 3.0])), (1, ([0.0], [1.0])), (3, ([0.0] * 3, [1.0] * 3))):
        menu = [p for p in pairs if (d < 3 or p[1] <= 3)]
        for boundary in (True, False):
            for seq in itertools.product(menu, repeat=2):
                out.append({"config": {"kind": "reuse", "d": d, "a": box[0], "b": box[1], "boundary": boundary, "sequence": [list(x) for x in seq]}})
            if d == 2:
                for seq in itertools.product(menu[:5], repeat=3):
                    if tier != "quick" or boundary:
                        out.append({"config": {"kind": "reuse", "d": d, "a": box[0], "b": box[1], "boundary": boundary, "sequence": [list(x) for x in seq]}})
    # observers between two operations on ONE object: every public plot / print / export helper, then another level range
    for d, box in ((2, ([-1.0, 0.5], [2.0, 3.0])), (3, ([0.0, -1.0, 2.0], [1.0, 1.0, 3.0]))):
        for boundary in (True, False):
            for obs in OBSERVERS:
                for first, second in (((1, 2), (1, 3)), ((2, 3), (1, 2)), ((1, 3), (1, 3)), ((1, 2), (2, 3))):
                    if d == 3 and (tier == "quick" and (first, second) != ((1, 2), (1, 3))):
                        continue
                    out.append({"config": {"kind": "reuse", "d": d, "a": box[0], "b": box[1], "boundary": boundary,
                                           "sequence": [list(first), obs, list(second)]}})
    if tier != "quick":
        for lmin in range(1, 5):
            out.append({"config": {"d": 2, "lmin": lmin, "lmax": 5, "a": [0.0, 0.0], "b": [1.0, 1.0], "boundary": True}})
            out.append({"config": {"d": 2, "lmin": lmin, "lmax": 5, "a": [0.0, 0.0], "b": [1.0, 1.0], "boundary": False}})
        for lmin in range(1, 4):
            out.append({"config": {"d": 3, "lmin": lmin, "lmax": 4, "a": [0.0] * 3, "b": [1.0] * 3, "boundary": True}})
        out.append({"config": {"d": 4, "lmin": 1, "lmax": 3, "a": [0.0] * 4, "b": [1.0] * 4, "boundary": False}})
        out.append({"config": {"d": 4, "lmin": 2, "lmax": 3, "a": [0.0] * 4, "b": [1.0] * 4, "boundary": True}})
    return out


def main(ctx):
    cs = cases(ctx.tier)
    ctx.determinism_probe(cs[20])
    results = ctx.map(cs, chunksize=1)
    for case, res in zip(cs, results):
        ctx.absorb(case, res, group=("reuse_" if case["config"].get("kind") == "reuse" else "") + "d%d_bnd%d" % (case["config"]["d"], case["config"]["boundary"]))
    for i in (1, len(cs) // 3, len(cs) - 1):
        ctx.add_sample({"case": cs[i], "outcome": results[i]["outcome"]})
    ctx.bounds = {"configurations": sum(1 for c in cs if c["config"].get("kind") != "reuse"), "object_reuse_sequences": sum(1 for c in cs if c["config"].get("kind") == "reuse"),
                  "max_sparse_grid_points": max(r["outcome"][0] for c, r in zip(cs, results) if c["config"].get("kind") != "reuse" and r["outcome"] is not None)}
    return ctx.finish(
        rule="complete lattice d x (1<=lmin<=lmax<=L_d) x box x boundary; per configuration ALL nodal unit functions and ALL "
             "hierarchical hats of the sparse-grid space are carried as components of vector-valued functions (evaluations = number of "
             "basis functions decided); non-trivial = more than one sparse grid point",
        assumptions=["TrapezoidalGrid (the nested grid family of the statement), Integration operation",
                     "boxes with non-dyadic bounds (6/3/2 boxes for d=1/2/3, levels up to 5/3/2-3): point sets compared as a bijection within 16 ulp", "float-exact boxes [0,1]^d, [-1,3]^d, [-3,6]x[2,4]x[0,1], and boxes whose bounds coincide with interior grid coordinates of other dimensions ([-1,1]x[0,1], [0,2]x[1,3], [-2,2]x[-1,3]x[0,1]); L_d = 5/4/3 for d=1/2/3 (thorough adds lmax 5 (d=2), 4 (d=3), d=4)",
                     "tolerance 1e-12"])
