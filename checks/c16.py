"""C16 - density estimation solves the right linear system.

Exhaustive lattice: (uniform) d in {1,2,3} x every level vector <= L per dimension, (non-uniform) every tree of depth
<= 3 (1D) and every pair of trees of depth <= 2/3 (2D) x lambda x mass lumping x analytic/numeric x labelling.  By
linearity of the right-hand side in the empirical measure the data are ALL single-sample sets on a lattice containing
grid lines, cell interiors and the domain boundary, plus all two-sample sets of a sub-lattice (1/M factor, signs).
Oracle: R == exact Gram matrix of the hat basis + lambda I (symmetric, Cholesky), lumped form == Gram diagonal,
b == sample mean of independently evaluated hats, scalar/vectorised/completely vectorised hats agree at every lattice
point, surpluses == reference solve + documented normalisation, combi(points) == sum coeff * sum alpha_j phi_j.
"""
import itertools

import numpy as np

from mc import core, trees
from mc.core import fail

PID = "C16"
import math
# grid lines, cell interiors, the domain boundary, and the floating-point neighbours of grid lines (one ulp below / above)
LAT1 = [0.0, 0.125, 0.25, math.nextafter(0.25, 0.0), 0.3, 0.5, math.nextafter(0.5, 1.0), 0.77, math.nextafter(0.75, 0.0), 1.0]


def hat1d(pts, i, x):
    l, c, r = pts[i - 1], pts[i], pts[i + 1]
    if x <= l or x >= r:
        return 0.0
    return (x - l) / (c - l) if x <= c else (r - x) / (r - c)


def gram1d(pts):
    n = len(pts) - 2
    G = np.zeros((n, n))
    for i in range(1, n + 1):
        hl, hr = pts[i] - pts[i - 1], pts[i + 1] - pts[i]
        G[i - 1, i - 1] = (hl + hr) / 3
        if i < n:
            G[i - 1, i] = G[i, i - 1] = hr / 6
    return G


def _kron(mats):
    out = np.ones((1, 1))
    for m in mats:
        out = np.kron(out, m)
    return out


def _hats_at(coords, x):
    """values of all tensor hats (inner points, lexicographic order with the last dimension fastest) at point x"""
    per = [[hat1d(c, i, x[k]) for i in range(1, len(c) - 1)] for k, c in enumerate(coords)]
    return np.array([float(np.prod(v)) for v in itertools.product(*per)])


def _datasets(d, full):
    lat = LAT1 if full else [0.0, 0.25, math.nextafter(0.25, 0.0), 0.3, 0.77, 1.0]
    pts = list(itertools.product(lat, repeat=d))
    if d == 3:
        pts = list(itertools.product([0.0, 0.25, 0.3, 0.77], repeat=3))[::3]
    if d >= 4:      # d >= 4: the system matrix is the object of interest; a few samples (grid line, cell interior, boundary) for the right-hand side
        pts = list(itertools.product([0.0, 0.25, 0.3, 0.77], repeat=d))[::37][:8]
    sets = [[p] for p in pts]
    sub = list(itertools.product([0.25, 0.3, 0.77], repeat=d))[: 9]
    sets += [[p, q] for p, q in itertools.combinations(sub, 2)]
    sets += [[p, p] for p in sub[:4]] + [[sub[0], sub[1], sub[0]]]      # duplicate samples count as often as they occur
    return sets


LABELS = {"none": None, "pm1": lambda n: np.array([1.0, -1.0, 1.0][:n] if n > 1 else [1.0]), "neg": lambda n: np.array([-1.0] * n),
          "frac": lambda n: np.array([1.0, -0.5, 0.25][:n] if n > 1 else [-0.5])}


def _with_threshold(value, fn):
    """run fn with the internal size threshold moved (guarded verification hook), so that the large-grid code path serves a small grid"""
    import sparseSpACE.GridOperation as GO
    GO._VERIF_DE_THRESHOLD = value
    try:
        return fn()
    finally:
        GO._VERIF_DE_THRESHOLD = None


def _reference_solution(R, b, weights, labelled, lumped_diag=None):
    if lumped_diag is not None:
        alphas = b / lumped_diag
    else:
        alphas = np.linalg.solve(R, b)
    w = np.asarray(weights, dtype=float)
    if labelled:
        alphas = alphas - np.inner(alphas, w) / np.sum(w)
    integral = np.inner(alphas.clip(min=0.0), w) / np.sum(w)
    if integral != 0:
        alphas = alphas / integral
    return alphas


def _uniform_case(c):
    from sparseSpACE.GridOperation import DensityEstimation
    lv, lam, lump = c["level"], c["lambda"], c["masslumping"]
    d = len(lv)
    key = {"grid": "uniform", "masslumping": lump}
    fails = []
    coords = [[i / 2 ** l for i in range(2 ** l + 1)] for l in lv]
    G = _kron([gram1d(p) for p in coords])
    n = G.shape[0]
    nevals = 0
    for lab in c["labels"]:
        for data in _datasets(d, c.get("full", True)):
            X = np.array(data, dtype=float)
            cls = None if LABELS[lab] is None else LABELS[lab](len(data))
            op = DensityEstimation(X.copy(), d, masslumping=lump, lambd=lam, classes=None if cls is None else cls.copy(),
                                   print_output=False, pre_scaled_data=True, print_level=1000, log_level=1000)
            op.grid.numPoints = 2 ** np.array(lv) - 1
            R = op.build_R_matrix(lv)
            nevals += 1
            if lump:
                Rd = np.full(n, float(R)) if np.isscalar(R) or np.ndim(R) == 0 else np.asarray(R, dtype=float)
                ok = np.allclose(Rd, np.diag(G), rtol=1e-13, atol=0) or np.allclose(Rd, np.diag(G) + lam, rtol=1e-13, atol=0)
                if not ok:
                    fails.append(fail("lumped_equals_gram_diagonal", "level %r: lumped %r, Gram diagonal %r" % (lv, Rd[:4], np.diag(G)[:4]), key))
                    return fails, nevals
            else:
                R = np.asarray(R, dtype=float)
                if R.shape != G.shape or not np.allclose(R, G + lam * np.eye(n), rtol=1e-13, atol=1e-16):
                    i, j = np.unravel_index(int(np.argmax(np.abs(R - G - lam * np.eye(n)))), R.shape) if R.shape == G.shape else (0, 0)
                    fails.append(fail("R_equals_gram_plus_lambda", "level %r lambda %r: R[%d,%d]=%r, Gram+lambda I %r" % (lv, lam, i, j, R[i, j] if R.shape == G.shape else R.shape, (G + lam * np.eye(n))[i, j]), key))
                    return fails, nevals
                if not np.array_equal(R, R.T):
                    fails.append(fail("R_symmetric", "level %r" % (lv,), key))
                try:
                    np.linalg.cholesky(R)
                except np.linalg.LinAlgError:
                    fails.append(fail("R_positive_definite", "level %r lambda %r: Cholesky fails" % (lv, lam), key))
            b = np.asarray(op.calculate_B(X, lv), dtype=float)
            sgn = np.ones(len(data)) if cls is None else cls
            bref = sum(s * _hats_at(coords, x) for s, x in zip(sgn, data)) / len(data)
            if b.shape != bref.shape or not np.allclose(b, bref, rtol=1e-13, atol=1e-15):
                fails.append(fail("rhs_equals_sample_mean", "level %r data %r labels %r: b %r, reference %r" % (lv, data, None if cls is None else cls.tolist(), b.tolist()[:6], bref.tolist()[:6]),
                                  dict(key, labels=lab)))
                return fails, nevals
            # the large-grid code path of the right-hand side (used from 200 grid points on) on the same grid, via the guarded hook
            b_large = _with_threshold(0, lambda: np.asarray(op.calculate_B(X, lv), dtype=float))
            if b_large.shape != bref.shape or not np.allclose(b_large, bref, rtol=1e-13, atol=1e-15):
                fails.append(fail("rhs_equals_sample_mean", "large-grid path, level %r data %r labels %r: b %r, reference %r" % (lv, data, None if cls is None else cls.tolist(), b_large.tolist()[:6], bref.tolist()[:6]),
                                  dict(key, labels=lab, path="large")))
                return fails, nevals
            # hat routines agree (scalar / vectorised over hats in support / completely vectorised)
            ivecs = np.array(list(itertools.product(*[range(1, 2 ** l) for l in lv])), dtype=int)
            lvec = np.array(lv, dtype=int)
            comp = op.hat_function_in_support_completely_vectorized(ivecs, lvec, X) if len(ivecs) else np.zeros((len(X), 0))
            for r_, x in enumerate(X):
                scal = np.array([op.hat_function(iv, lv, x) for iv in ivecs])
                if not np.allclose(comp[r_], scal, rtol=1e-14, atol=1e-16) or not np.allclose(scal, _hats_at(coords, x), rtol=1e-13, atol=1e-15):
                    fails.append(fail("hat_variants_agree", "level %r x %r: completely vectorised %r, scalar %r, reference %r" % (lv, x.tolist(), comp[r_].tolist()[:5], scal.tolist()[:5], _hats_at(coords, x).tolist()[:5]), key))
                    return fails, nevals
                hs = op.get_hats_in_support(lv, x)
                if len(hs):
                    vec = op.hat_function_in_support_vectorized(np.array(hs, dtype=int), lvec, x)
                    ref = np.array([op.hat_function(h, lv, x) for h in hs])
                    if not np.allclose(vec, ref, rtol=1e-14, atol=1e-16):
                        fails.append(fail("hat_variants_agree", "level %r x %r: vectorised over support %r, scalar %r" % (lv, x.tolist(), vec.tolist(), ref.tolist()), key))
                        return fails, nevals
                    full = {tuple(int(t) for t in iv): v for iv, v in zip(ivecs, scal)}
                    missing = [iv for iv, v in full.items() if v > 0 and iv not in {tuple(int(t) for t in h) for h in hs}]
                    if missing:
                        fails.append(fail("hats_in_support_complete", "level %r x %r: hats %r have non-zero value but are not listed" % (lv, x.tolist(), missing), key))
                        return fails, nevals
            # surpluses
            alphas = np.asarray(op.solve_density_estimation(lv), dtype=float)
            ref = _reference_solution(G + lam * np.eye(n), bref, np.ones(n), cls is not None, lumped_diag=np.diag(G) if lump else None)
            sc = max(1.0, float(np.max(np.abs(ref))))
            if alphas.shape != ref.shape or not np.allclose(alphas, ref, rtol=1e-9, atol=1e-10 * sc):
                fails.append(fail("surpluses_equal_reference", "level %r lambda %r data %r labels %s: %r, reference %r" % (lv, lam, data, lab, alphas.tolist()[:5], ref.tolist()[:5]),
                                  dict(key, labels=lab)))
                return fails, nevals
            pos = float(np.mean(alphas.clip(min=0.0)))
            if pos != 0 and not (abs(pos - 1.0) <= 1e-10):
                fails.append(fail("normalisation", "level %r: mean of positive parts %r" % (lv, pos), key))
    return fails, nevals


def _nonuniform_case(c):
    from sparseSpACE.GridOperation import DensityEstimation
    from sparseSpACE.Grid import GlobalTrapezoidalGrid
    from sparseSpACE.ComponentGridInfo import ComponentGridInfo
    ts, lam, lump, numeric = c["trees"], c["lambda"], c["masslumping"], c["numeric"]
    d = len(ts)
    key = {"grid": "nonuniform", "masslumping": lump, "numeric": numeric}
    fails = []
    coords = [list(t[0]) for t in ts]
    lvs = [list(t[1]) for t in ts]
    G = _kron([gram1d(p) for p in coords])
    n = G.shape[0]
    nevals = 0
    for lab in c["labels"]:
        for data in _datasets(d, c.get("full", False)):
            X = np.array(data, dtype=float)
            cls = None if LABELS[lab] is None else LABELS[lab](len(data))
            grid = GlobalTrapezoidalGrid(a=np.zeros(d), b=np.ones(d), modified_basis=False, boundary=False)
            op = DensityEstimation(X.copy(), d, grid=grid, masslumping=lump, lambd=lam, classes=None if cls is None else cls.copy(),
                                   reuse_old_values=False, numeric_calculation=numeric, print_output=False, pre_scaled_data=True,
                                   print_level=1000, log_level=1000)
            op.dimension_wise = True
            op.max_levels = [max(l) + 1 for l in lvs]
            nevals += 1
            if nevals == 1 or not numeric:        # the matrix does not depend on the data; the numeric variant is slow
                R = np.asarray(op.build_R_matrix_dimension_wise(coords, lvs), dtype=float)
                tol = 1e-9 if numeric else 1e-13
                if lump:
                    if R.shape != (n,) or not np.allclose(R, np.diag(G) + lam, rtol=tol, atol=1e-15):
                        fails.append(fail("lumped_equals_gram_diagonal", "points %r: lumped %r, Gram diagonal + lambda %r" % (coords, R.tolist()[:4], (np.diag(G) + lam).tolist()[:4]), key))
                        return fails, nevals
                else:
                    if R.shape != G.shape or not np.allclose(R, G + lam * np.eye(n), rtol=tol, atol=1e-15):
                        i, j = np.unravel_index(int(np.argmax(np.abs(R - G - lam * np.eye(n)))), R.shape) if R.shape == G.shape else (0, 0)
                        fails.append(fail("R_equals_gram_plus_lambda", "points %r lambda %r: R[%d,%d]=%r, Gram+lambda I %r" % (coords, lam, i, j, R[i, j] if R.shape == G.shape else R.shape, (G + lam * np.eye(n))[i, j]), key))
                        return fails, nevals
                    if not np.array_equal(R, R.T):
                        fails.append(fail("R_symmetric", "points %r" % (coords,), key))
                    try:
                        np.linalg.cholesky(R + (1e-3 * np.eye(n) if numeric and lam == 0 else 0))
                    except np.linalg.LinAlgError:
                        fails.append(fail("R_positive_definite", "points %r: Cholesky fails" % (coords,), key))
            grid.set_grid(coords, lvs)
            b = np.asarray(op.calculate_B_dimension_wise(X, coords, lvs), dtype=float)
            sgn = np.ones(len(data)) if cls is None else cls
            bref = sum(s * _hats_at(coords, x) for s, x in zip(sgn, data)) / len(data)
            if b.shape != bref.shape or not np.allclose(b, bref, rtol=1e-13, atol=1e-15):
                fails.append(fail("rhs_equals_sample_mean", "points %r data %r labels %r: b %r, reference %r" % (coords, data, None if cls is None else cls.tolist(), b.tolist()[:6], bref.tolist()[:6]),
                                  dict(key, labels=lab)))
                return fails, nevals
            b_large = _with_threshold(0, lambda: np.asarray(op.calculate_B_dimension_wise(X, coords, lvs), dtype=float))
            if b_large.shape != bref.shape or not np.allclose(b_large, bref, rtol=1e-13, atol=1e-15):
                fails.append(fail("rhs_equals_sample_mean", "large-grid path, points %r data %r labels %r: b %r, reference %r" % (coords, data, None if cls is None else cls.tolist(), b_large.tolist()[:6], bref.tolist()[:6]),
                                  dict(key, labels=lab, path="large")))
                return fails, nevals
            # scalar vs completely vectorised non-symmetric hats
            points, lower, upper = op.get_hat_domain_for_every_grid_point_vectorized(coords)
            comp = op.hat_function_non_symmetric_completely_vectorized(points, lower, upper, X)
            for r_, x in enumerate(X):
                scal = np.array([op.hat_function_non_symmetric(points[i], list(zip(lower[i], upper[i])), x) for i in range(len(points))])
                if not np.allclose(comp[r_], scal, rtol=1e-14, atol=1e-16) or not np.allclose(scal, _hats_at(coords, x), rtol=1e-13, atol=1e-15):
                    fails.append(fail("hat_variants_agree", "points %r x %r: completely vectorised %r, scalar %r, reference %r" % (coords, x.tolist(), comp[r_].tolist()[:5], scal.tolist()[:5], _hats_at(coords, x).tolist()[:5]), key))
                    return fails, nevals
            if not numeric:
                alphas = np.asarray(op.solve_density_estimation_dimension_wise(coords, lvs, ComponentGridInfo([max(l) for l in lvs], 1)), dtype=float)
                _, w = grid.get_points_and_weights()
                ref = _reference_solution(G + lam * np.eye(n), bref, w, cls is not None, lumped_diag=(np.diag(G) + lam) if lump else None)
                sc = max(1.0, float(np.max(np.abs(ref))))
                if alphas.shape != ref.shape or not np.allclose(alphas, ref, rtol=1e-9, atol=1e-10 * sc):
                    fails.append(fail("surpluses_equal_reference", "points %r lambda %r data %r labels %s: %r, reference %r" % (coords, lam, data, lab, alphas.tolist()[:5], ref.tolist()[:5]),
                                      dict(key, labels=lab)))
                    return fails, nevals
                pos = float(np.inner(alphas.clip(min=0.0), w) / np.sum(w))
                if pos != 0 and not (abs(pos - 1.0) <= 1e-10):
                    fails.append(fail("normalisation", "points %r: weighted mean of positive parts %r" % (coords, pos), key))
    return fails, nevals


def gram1d_boundary(pts):
    """Gram matrix of ALL nodal hats of a 1D point set, the two boundary half-hats included"""
    n = len(pts)
    G = np.zeros((n, n))
    for i in range(n):
        hl = pts[i] - pts[i - 1] if i > 0 else 0.0
        hr = pts[i + 1] - pts[i] if i < n - 1 else 0.0
        G[i, i] = (hl + hr) / 3
        if i < n - 1:
            G[i, i + 1] = G[i + 1, i] = hr / 6
    return G


def _hats_at_boundary(coords, x):
    per = []
    for k, c in enumerate(coords):
        ext = [c[0] - 1.0] + list(c) + [c[-1] + 1.0]          # virtual neighbours: the boundary hats are the restrictions of full hats
        per.append([hat1d(ext, i, x[k]) for i in range(1, len(ext) - 1)])
    return np.array([float(np.prod(v)) for v in itertools.product(*per)])


def _nonuniform_boundary_case(c):
    """component grids WITH boundary points (dimension-wise refinement with boundary=True): system matrix and right-hand side"""
    from sparseSpACE.GridOperation import DensityEstimation
    from sparseSpACE.Grid import GlobalTrapezoidalGrid
    ts, lam = c["trees"], c["lambda"]
    d = len(ts)
    fails = []
    coords = [list(t[0]) for t in ts]
    lvs = [list(t[1]) for t in ts]
    G = _kron([gram1d_boundary(p) for p in coords])
    n = G.shape[0]
    nevals = 0
    for lab in c["labels"]:
        for data in _datasets(d, False):
            X = np.array(data, dtype=float)
            cls = None if LABELS[lab] is None else LABELS[lab](len(data))
            # a sample with a coordinate on the upper domain boundary belongs to the boundary hat there
            key = {"grid": "nonuniform", "boundary": True, "sample_on_upper_boundary": bool(np.any(X == 1.0))}
            grid = GlobalTrapezoidalGrid(a=np.zeros(d), b=np.ones(d), modified_basis=False, boundary=True)
            op = DensityEstimation(X.copy(), d, grid=grid, masslumping=False, lambd=lam, classes=None if cls is None else cls.copy(),
                                   reuse_old_values=False, numeric_calculation=False, print_output=False, pre_scaled_data=True,
                                   print_level=1000, log_level=1000)
            op.dimension_wise = True
            op.max_levels = [max(l) + 1 for l in lvs]
            grid.set_grid(coords, lvs)
            nevals += 1
            if nevals == 1:
                R = np.asarray(op.build_R_matrix_dimension_wise(coords, lvs), dtype=float)
                if R.shape != G.shape or not np.allclose(R, G + lam * np.eye(n), rtol=1e-13, atol=1e-15):
                    fails.append(fail("R_equals_gram_plus_lambda", "points %r (with boundary points) lambda %r" % (coords, lam), key))
                    return fails, nevals
            sgn = np.ones(len(data)) if cls is None else cls
            bref = sum(s_ * _hats_at_boundary(coords, x) for s_, x in zip(sgn, data)) / len(data)
            for path, thr in (("small", None), ("large", 0)):
                b = _with_threshold(thr, lambda: np.asarray(op.calculate_B_dimension_wise(X, coords, lvs), dtype=float)) if thr is not None else \
                    np.asarray(op.calculate_B_dimension_wise(X, coords, lvs), dtype=float)
                if b.shape != bref.shape or not np.allclose(b, bref, rtol=1e-13, atol=1e-15):
                    fails.append(fail("rhs_equals_sample_mean", "points %r (with boundary points) data %r labels %r, %s-grid path: b sums to %r, reference to %r"
                                      % (coords, data, None if cls is None else cls.tolist(), path, float(np.sum(b)), float(np.sum(bref))), key))
                    break
    return fails, nevals


def _combi_case(c):
    """StandardCombi + DensityEstimation: combi(points) == sum_l coefficient_l * sum_j alpha_j phi_j(points)"""
    from sparseSpACE.GridOperation import DensityEstimation
    from sparseSpACE.StandardCombi import StandardCombi
    d, lmin, lmax, lam = c["d"], c["lmin"], c["lmax"], c["lambda"]
    key = {"grid": "combi"}
    X = np.array(c["data"], dtype=float)
    op = DensityEstimation(X.copy(), d, masslumping=c["masslumping"], lambd=lam, print_output=False, pre_scaled_data=True,
                           print_level=1000, log_level=1000)
    combi = StandardCombi(np.zeros(d), np.ones(d), operation=op, print_output=False, print_level=1000, log_level=1000)
    lat = list(itertools.product([0.0, 0.1, 0.25, 1 / 3, 0.5, 0.77, 1.0], repeat=d))
    if c.get("threshold") is not None:
        _with_threshold(c["threshold"], lambda: combi.perform_operation(lmin, lmax))
        got = _with_threshold(c["threshold"], lambda: np.asarray(combi(lat)).ravel())
    else:
        combi.perform_operation(lmin, lmax)
        got = np.asarray(combi(lat)).ravel()
    want = np.zeros(len(lat))
    for comp in combi.scheme:
        lv = [int(x) for x in comp.levelvector]
        coords = [[i / 2 ** l for i in range(2 ** l + 1)] for l in lv]
        al = np.asarray(op.surpluses[tuple(comp.levelvector)], dtype=float).ravel()
        # independent surplus computation
        G = _kron([gram1d(p) for p in coords])
        bref = sum(_hats_at(coords, x) for x in X) / len(X)
        ref = _reference_solution(G + lam * np.eye(len(G)), bref, np.ones(len(G)), False, lumped_diag=np.diag(G) if c["masslumping"] else None)
        if al.shape != ref.shape or not np.allclose(al, ref, rtol=1e-9, atol=1e-10 * max(1.0, float(np.max(np.abs(ref))))):
            return [fail("surpluses_equal_reference", "component %r: %r, reference %r" % (lv, al.tolist()[:5], ref.tolist()[:5]), key)], 1
        want += comp.coefficient * np.array([float(np.dot(ref, _hats_at(coords, p))) for p in lat])
    if not np.allclose(got, want, rtol=1e-9, atol=1e-10 * max(1.0, float(np.max(np.abs(want))))):
        i = int(np.argmax(np.abs(got - want)))
        return [fail("combined_density", "at %r: %r, reference %r" % (lat[i], got[i], want[i]), key)], 1
    return [], 1


def run_case(case):
    c = case["config"]
    fails, n = {"uniform": _uniform_case, "nonuniform": _nonuniform_case, "nonuniform_boundary": _nonuniform_boundary_case, "combi": _combi_case}[c["kind"]](c)
    return {"failures": fails, "canon": core.config_key(c), "outcome": (n, len(fails)), "nontrivial": True, "evals": n}


def cases(tier):
    q = tier == "quick"
    out = []
    lvs = [lv for d, L in ((1, 4), (2, 3), (3, 2 if q else 3)) for lv in itertools.product(range(1, L + 1), repeat=d)]
    # level >= 2 in three and four dimensions at once (every pair of dimensions has interacting neighbours), anisotropic mixes
    lvs += [(1, 1, 1, 1), (2, 2, 1, 2), (1, 2, 2, 2), (2, 1, 2, 1)] + ([] if q else [(2, 2, 2, 2), (3, 2, 2, 2), (2, 2, 3, 1), (1, 1, 1, 1, 1), (2, 2, 2, 1, 2)])
    for lv in lvs:
        d = len(lv)
        if True:
            if d == 3 and q and sorted(lv) not in ([1, 1, 2], [1, 2, 2], [1, 1, 1], [2, 2, 2]):
                continue
            for lam in (0.0, 0.1):
                for lump in (False, True):
                    out.append({"config": {"kind": "uniform", "level": list(lv), "lambda": lam, "masslumping": lump,
                                           "labels": ["none", "pm1", "frac"] if lam == 0.0 else ["none", "neg"], "full": d < 3 and (not q or max(lv) <= 2)}})
    T1 = trees.all_trees_depth(3, 0.0, 1.0)
    T2 = trees.all_trees_depth(2, 0.0, 1.0) if q else trees.all_trees_depth(3, 0.0, 1.0)[:12]
    for t in T1:
        for lam in (0.0, 0.1):
            for lump in (False, True):
                out.append({"config": {"kind": "nonuniform", "trees": [list(t)], "lambda": lam, "masslumping": lump, "numeric": False,
                                       "labels": ["none", "pm1", "frac"], "full": True}})
        out.append({"config": {"kind": "nonuniform", "trees": [list(t)], "lambda": 0.1, "masslumping": False, "numeric": True,
                               "labels": ["none"], "full": False}})
    for t0 in T2:
        for t1 in T2:
            for lam, lump in ((0.0, False), (0.1, False), (0.1, True)):
                out.append({"config": {"kind": "nonuniform", "trees": [list(t0), list(t1)], "lambda": lam, "masslumping": lump, "numeric": False,
                                       "labels": ["none", "frac"] if lam == 0.0 else ["pm1"], "full": False}})
    # component grids with boundary points
    for t in T1:
        out.append({"config": {"kind": "nonuniform_boundary", "trees": [list(t)], "lambda": 0.1, "labels": ["none", "pm1"]}})
    for t0 in trees.all_trees_depth(2, 0.0, 1.0):
        for t1 in trees.all_trees_depth(2, 0.0, 1.0):
            out.append({"config": {"kind": "nonuniform_boundary", "trees": [list(t0), list(t1)], "lambda": 0.0, "labels": ["none", "frac"]}})
    for t0 in trees.all_trees_depth(2, 0.0, 1.0)[:3]:
        out.append({"config": {"kind": "nonuniform", "trees": [list(t0), list(trees.all_trees_depth(2, 0.0, 1.0)[1])], "lambda": 0.0,
                               "masslumping": False, "numeric": True, "labels": ["none"], "full": False}})
    data_menu = [[[0.3, 0.77], [0.5, 0.25], [0.125, 0.5]], [[0.25, 0.25]], [[0.0, 1.0], [0.77, 0.3], [0.3, 0.3], [0.5, 0.5]]]
    for data in data_menu:
        for lmin, lmax in ((1, 2), (1, 3), (2, 3)):
            for lam in (0.0, 0.1):
                out.append({"config": {"kind": "combi", "d": 2, "lmin": lmin, "lmax": lmax, "lambda": lam, "masslumping": False, "data": data}})
                out.append({"config": {"kind": "combi", "d": 2, "lmin": lmin, "lmax": lmax, "lambda": lam, "masslumping": False, "data": data, "threshold": 0}})
    out.append({"config": {"kind": "combi", "d": 2, "lmin": 1, "lmax": 3, "lambda": 0.0, "masslumping": True, "data": data_menu[0]}})
    out.append({"config": {"kind": "combi", "d": 1, "lmin": 1, "lmax": 4, "lambda": 0.1, "masslumping": False, "data": [[0.3], [0.77], [0.5]]}})
    return out


def main(ctx):
    cs = cases(ctx.tier)
    ctx.determinism_probe(cs[3])
    results = ctx.map(cs, chunksize=1)
    for case, res in zip(cs, results):
        ctx.absorb(case, res, group=case["config"]["kind"])
    for i in (2, len(cs) // 2, len(cs) - 1):
        ctx.add_sample(cs[i])
    ctx.bounds = {k: sum(1 for c in cs if c["config"]["kind"] == k) for k in ("uniform", "nonuniform", "nonuniform_boundary", "combi")}
    return ctx.finish(
        rule="one case = one component grid (uniform level vector, or refinement tree(s)) x lambda x mass lumping x analytic/numeric; "
             "inside a case every labelling of the menu and EVERY single-sample data set of the lattice {0,1/8,1/4,0.3,1/2,0.77,1}^d "
             "(incl. the floating-point neighbours of grid lines) plus all two-sample sets of a sub-lattice are decided (evaluations = data sets); combi cases compare the combined "
             "density of StandardCombi with the reference surpluses",
        assumptions=["data in the unit cube, pre_scaled_data=True", "the large-grid code paths (>= 200 points) are run on the same small grids through the guarded hook _VERIF_DE_THRESHOLD", "mass-lumped form: Gram diagonal, with or without lambda (the uniform path "
                     "omits it, the non-uniform path adds it; the statement does not say)",
                     "numeric (nquad) matrix entries only on 1D trees and three small 2D grids, tolerance 1e-9; analytic 1e-13"])
