"""C03 - dimension-wise refinement always yields a valid nested combination.

Explicit-state BFS over refinement-decision histories of the real SpatiallyAdaptiveSingleDimensions2
(scripted estimator, real adaptive loop and real margin selection).  In every reached state: 1D point lists
per (dimension, level) are sorted, contain the end points, are independent of the other dimensions and nested;
every combined grid point has coefficient sum exactly 1; the combined interpolant reproduces all nodal unit
functions (hence every function) and a seed-salted function carried through the refinement.
"""
import numpy as np

from mc import core, dw, dw_oracles as orc

PID = "C03"
SEED = 0


def set_seed(s):
    global SEED
    SEED = s


def run_case(case):
    config, history = case["config"], case["history"]
    r = dw.build(config, history, orc.hash_function(case.get("seed", SEED)), 2)
    sa, op = r.sa, r.op
    key = {}
    fails, per = orc.one_d_lists_failures(sa, key)
    f2, points = orc.coefficient_sum_failures(sa, key)
    fails += f2
    fvals = np.array([op.f.eval(p) for p in points]) if points else None
    fails += orc.reproduction_failures(sa, op, points, key, fvals=fvals)
    res = {"failures": fails, "canon": dw.canon(sa),
           "outcome": (len(points), tuple(sorted((tuple(int(x) for x in c.levelvector), c.coefficient) for c in sa.scheme))),
           "nontrivial": len(history) > 0}
    if case.get("want_events", False):
        res["events"] = dw.events_for(sa, config)
    return res


def configs(tier):
    out = []

    def add(d, lmin, lmax, version, reb, bnd, D, s, towards=None, a=None, b=None, **opts):
        c = {"d": d, "lmin": lmin, "lmax": lmax, "version": version, "rebalancing": reb, "boundary": bnd, "s": s}
        c.update(opts)
        if towards:
            c["towards"] = towards
        if a is not None:
            c["a"], c["b"] = a, b
        out.append((c, D))
    FAR = dict(a=[1048576.0, -1.0], b=[1048577.0, 3.0])     # a domain far from the origin in one dimension
    TF = [[1048576.3, 0.2], [1048576.3, 2.2]]
    T2 = [[0.3, 0.3], [0.3, 0.8]]
    T3 = [[0.3, 0.3, 0.3], [0.8, 0.3, 0.6]]
    if tier == "quick":
        for version in (6, 2, 3, 7, 8):
            for reb in (True, False):
                for bnd in (True, False):
                    add(2, 1, 2, version, reb, bnd, 2, 2 if version == 6 else 1)
        for reb in (True, False):
            add(2, 1, 3, 6, reb, True, 2, 1)
            add(2, 2, 3, 6, reb, True, 2, 1)
            add(1, 1, 2, 6, reb, True, 3, 2)
            add(3, 1, 2, 6, reb, True, 2, 1)
        add(3, 1, 3, 6, True, False, 1, 1)
        # d = 3 with lmax - lmin = 2: two steps in two different dimensions (component grids at the minimum level in one dimension and
        # above it in the others) for the default version and 7 / 8, plus a graded history
        # (the complete depth-2 layers of this start take 150-190 s each: thorough tier; quick keeps the graded history)
        add(3, 1, 3, 6, False, True, 3, 1, towards=T3)
        add(3, 2, 3, 6, False, True, 1, 1)        # d = 3 together with lmin = 2
        # rarely used public constructor options: no adaptive extension of the scheme, Chebyshev-distributed initial points (unit
        # cube: the option is only defined there), volume-weighted error estimates
        for opt in ({"dim_adaptive": False}, {"chebyshev_points": True}, {"use_volume_weighting": True}):
            add(2, 1, 2, 6, True, True, 2, 1, **opt)
            add(2, 1, 3, 6, False, True, 2, 1, **opt)
            add(2, 1, 2, 6, False, False, 3, 1, towards=T2, **opt)
        # the alternative coarsening versions started from lmin = 2 (components at the minimum level are coarsened below it there)
        for version in (2, 3):
            add(2, 2, 3, version, False, True, 5, 1, towards=[[0.3, 0.3]])
        # graded refinement towards a point: deep histories with few events per state
        for version in (6, 7, 8, 2, 3):
            for reb in (False, True):
                add(2, 1, 2, version, reb, True, 5, 1, towards=T2)
        add(2, 1, 2, 6, False, False, 5, 1, towards=T2)
        add(3, 1, 2, 6, True, True, 3, 1, towards=T3)
        add(3, 1, 2, 6, False, True, 3, 1, towards=T3)
        for bnd in (True, False):
            add(2, 1, 2, 6, True, bnd, 4, 1, towards=TF, **FAR)
    else:
        for version in (6, 7, 8):
            add(3, 1, 3, version, False, True, 2, 1)
        add(3, 1, 3, 6, False, True, 3, 1, towards=T3)
        for version in (6, 2):
            for bnd in (True, False):
                add(2, 1, 2, version, True, bnd, 6, 1, towards=TF, **FAR)
        for version in (6, 7, 8, 2, 3):
            for reb in (False, True):
                for bnd in (True, False):
                    add(2, 1, 2, version, reb, bnd, 6, 1, towards=T2 + [[0.6, 0.1]])
                add(3, 1, 2, version, reb, True, 4, 1, towards=T3)
                add(2, 1, 3, version, reb, True, 5, 1, towards=T2)
        for version in (6, 2, 3, 7, 8):
            for reb in (True, False):
                for bnd in (True, False):
                    add(2, 1, 2, version, reb, bnd, 3, 2)
                    add(2, 1, 3, version, reb, bnd, 2, 2)
                    add(2, 2, 3, version, reb, bnd, 2, 2)
                add(2, 1, 2, version, reb, True, 4, 1)
                add(3, 1, 2, version, reb, True, 3, 1)
                add(3, 1, 3, version, reb, True, 2, 1)
                add(1, 1, 2, version, reb, True, 4, 2)
    return out


def main(ctx):
    ctx.determinism_probe({"config": {"d": 2, "lmin": 1, "lmax": 2, "version": 6, "rebalancing": True, "boundary": True, "s": 1},
                           "history": [[[0, 0.0, 0.25]], [[0, 0.0, 0.125], [1, 0.5, 0.75]]], "seed": ctx.seed})
    for config, D in configs(ctx.tier):
        tag = "d%d_l%d%d_v%d_reb%d_bnd%d_D%d_s%d%s" % (config["d"], config["lmin"], config["lmax"], config["version"],
                                                      config["rebalancing"], config["boundary"], D, config["s"],
                                                      ("_towards" if config.get("towards") else "") + ("_far" if config.get("a") else "")) + \
            "".join("_%s%d" % (k, bool(v)) for k, v in sorted(config.items()) if k in ("dim_adaptive", "chebyshev_points", "use_volume_weighting"))
        st = core.bfs(ctx, config, D, tag=tag)
        ctx.bounds[tag] = st
    return ctx.finish(
        rule="state = refinement structure reached by a history of refinement decisions; events = every subset of <= s "
             "intervals (over all dimensions) plus 'all' and 'all of one dimension', chosen through a scripted ErrorCalculator; in the "
             "'towards' configurations instead the interval(s) containing a target point (one dimension or all), which allows depth 5-6; "
             "BFS to depth D with canonical-state deduplication (intervals+levels+coarsening per dimension, lmax, both index sets); "
             "non-trivial = state reached by at least one refinement step",
        assumptions=["domain [0,1]^d (float-exact dyadic points); d<=3; depth/subset bounds per configuration in bounds_completed",
                     "GlobalTrapezoidalGrid + Integration; decisions injected through the public errorOperator parameter",
                     "canonical form drops caches cleared by refinement_postprocessing and the function-value cache (not observed here)"])
