"""C04 - refinement never loses exactness the initial configuration had.

History exploration (BFS over refinement decisions) of the three spatially adaptive strategies on the real
objects.  The integrand is vector valued: component 0 is an arbitrary driving function, the remaining components
are a *basis* of the space the statement names (all hierarchical hats of the initial (lmin,lmax) sparse-grid
space for the dimension-wise strategy, 1,x_1..x_d for its modified basis, all products prod_{i in S} x_i for
extend-split and cell).  After every history the combined integral (and interpolant) of every basis component must
equal the exact value.
"""
import itertools
import os
import math

import numpy as np

from mc import core, dw, es, dw_oracles as orc
from mc.core import fail
from mc.refmodels import hats

PID = "C04"
TOL = 1e-11
LATTICE_1D = [0.1, 1 / 3, 0.6, 0.85]


def _driver(x):
    return math.sin(5 * float(x[0]) + float(x[-1])) + 0.3


def _multilinear(d, a, b):
    subsets = [S for k in range(d + 1) for S in itertools.combinations(range(d), k)]
    exact = []
    for S in subsets:
        v = 1.0
        for i in range(d):
            v *= (b[i] ** 2 - a[i] ** 2) / 2 if i in S else (b[i] - a[i])
        exact.append(v)

    def comps(x):
        return [float(np.prod([x[i] for i in S])) if S else 1.0 for S in subsets]
    return subsets, comps, exact


# ------------------------------------------------------------------ dimension-wise
def _natural_level(t):
    L = 0
    while t != int(t):
        t *= 2
        L += 1
    return L


def _tree_rotated(sa):
    """True iff some point carries a level different from its dyadic level (i.e. rebalancing rotated the tree)"""
    for d in range(sa.dim):
        a, b = float(sa.a[d]), float(sa.b[d])
        for o in sa.refinement.get_refinement_container_for_dim(d).get_objects():
            for x, l in ((o.start, o.levels[0]), (o.end, o.levels[1])):
                t = (float(x) - a) / (b - a)
                if t not in (0.0, 1.0) and _natural_level(t) != l:
                    return True
    return False


def _dw_case(case):
    config, history = case["config"], case["history"]
    d = config["d"]
    a = config.get("a", [0.0] * d)
    b = config.get("b", [1.0] * d)
    key = {"strategy": "dimension-wise"}
    if config.get("dim_adaptive") is False:
        key["dim_adaptive"] = False        # public constructor option (default True): the scheme is not extended adaptively
    fails = []
    subsets, mcomps, mexact = _multilinear(d, a, b)
    if config.get("modified_basis"):
        lin = [i for i, S in enumerate(subsets) if len(S) <= 1]
        comps = lambda x: [_driver(x)] + [mcomps(x)[i] for i in lin]
        exact = [mexact[i] for i in lin]
        r = dw.build(config, history, comps, 1 + len(exact))
        res = np.asarray(r.op.get_result(), dtype=float)
        err = np.abs(res[1:] - np.array(exact))
        if not np.max(err) <= TOL * max(1.0, max(abs(e) for e in exact)):
            i = int(np.argmax(err))
            fails.append(fail("linear_integral_modified_basis", "integral of %r is %r, exact %r" % (subsets[lin[i]], res[1 + i], exact[i]), key))
    else:
        B = hats.sparse_basis(d, config["lmin"], config["lmax"], config["boundary"], a, b)
        nB = len(B)
        comps = lambda x: [_driver(x)] + [hats.ev(c, x) for c in B] + mcomps(x)
        exact = [hats.integral(c) for c in B]
        r = dw.build(config, history, comps, 1 + nB + len(mexact))
        res = np.asarray(r.op.get_result(), dtype=float)
        err = np.abs(res[1:1 + nB] - np.array(exact))
        scale = max(1.0, float(np.prod(np.array(b) - np.array(a))))
        if not np.max(err) <= TOL * scale:
            i = int(np.argmax(err))
            fails.append(fail("initial_space_integral", "hat %r: integral %r, exact %r" % (B[i], res[1 + i], exact[i]), key))
        lat = [tuple(a[i] + t * (b[i] - a[i]) for i, t in enumerate(p)) for p in itertools.product(LATTICE_1D, repeat=d)]
        got = np.asarray(r.sa(lat))
        want = np.array([[hats.ev(c, p) for c in B] for p in lat])
        ierr = np.abs(got[:, 1:1 + nB] - want)
        if not np.max(ierr) <= 1e-10:
            i, j = np.unravel_index(int(np.argmax(ierr)), ierr.shape)
            fails.append(fail("initial_space_interpolation", "hat %r at %r: %r, exact %r" % (B[j], lat[i], got[i, 1 + j], want[i, j]), key))
        if config["boundary"]:
            merr = np.abs(res[1 + nB:] - np.array(mexact))
            if not np.max(merr) <= TOL * max(1.0, max(abs(e) for e in mexact)):
                i = int(np.argmax(merr))
                fails.append(fail("multilinear_integral", "prod x_%r: integral %r, exact %r" % (subsets[i], res[1 + nB + i], mexact[i]), key))
            mwant = np.array([mcomps(p) for p in lat])
            e2 = np.abs(got[:, 1 + nB:] - mwant)
            if not np.max(e2) <= 1e-10 * max(1.0, float(np.max(np.abs(mwant)))):
                i, j = np.unravel_index(int(np.argmax(e2)), e2.shape)
                fails.append(fail("multilinear_interpolation", "prod x_%r at %r: %r, exact %r" % (subsets[j], lat[i], got[i, 1 + nB + j], mwant[i, j]), key))
    sa = r.sa
    rotated = _tree_rotated(sa)     # the known finding is tied to an actual level rotation, not to the flag
    for f in fails:
        f["key"]["tree_rotated"] = rotated
        if not rotated and config.get("version") in (2, 3):
            # the alternative coarsening versions 2 and 3 (no clamp at the minimum level, coarsening shared between the dimensions)
            f["key"]["alternative_version"] = config["version"]
            f["key"]["lmin_ge_2"] = config["lmin"] >= 2
            f["key"]["span_ge_2"] = config["lmax"] - config["lmin"] >= 2
    out = {"failures": fails, "canon": dw.canon(sa), "nontrivial": len(history) > 0,
           "outcome": tuple(round(float(x), 9) for x in res[:1])}
    if case.get("want_events", False):
        out["events"] = dw.events_for(sa, config)
    return out


# ------------------------------------------------------------------ extend-split and cell
def _cell_canon(sa):
    return tuple(sorted((tuple(float(x) for x in k[0]), tuple(float(x) for x in k[1]), bool(c.active))
                        for k, c in sa.cell_dict.items()))


def _cell_events(sa, s):
    act = sorted(es._key(o) for o in sa.refinement.get_objects() if o.active)
    out = []
    for k in range(1, s + 1):
        for ch in itertools.combinations(act, k):
            out.append([[list(c[0]), list(c[1]), None] for c in ch])
    if len(act) > s:
        out.append([[list(c[0]), list(c[1]), None] for c in act])
    return out


def _area_case(case):
    config, history = case["config"], case["history"]
    strategy = config["strategy"]
    d = config["d"]
    a = config.get("a", [0.0] * d)
    b = config.get("b", [1.0] * d)
    key = {"strategy": "extend-split" if strategy == "es" else "cell"}
    subsets, mcomps, mexact = _multilinear(d, a, b)
    comps = lambda x: [_driver(x)] + mcomps(x)
    r = es.build(config, history, comps, 1 + len(mexact), strategy=strategy)
    res = np.asarray(r.result[3], dtype=float)
    fails = []
    err = np.abs(res[1:] - np.array(mexact))
    if not np.max(err) <= TOL * max(1.0, max(abs(e) for e in mexact)):
        i = int(np.argmax(err))
        fails.append(fail("multilinear_integral", "prod x_%r: integral %r, exact %r" % (subsets[i], res[1 + i], mexact[i]), key))
    sa = r.sa
    out = {"failures": fails, "canon": es.canon(sa) if strategy == "es" else _cell_canon(sa),
           "nontrivial": len(history) > 0, "outcome": round(float(res[0]), 9)}
    if case.get("want_events", False):
        out["events"] = es.events(sa, config) if strategy == "es" else _cell_events(sa, config.get("s", 1))
    return out


# ------------------------------------------------------------------ the library's own estimator, real integrands
INTEGRANDS = {
    "peak_left": lambda x: 10 * math.exp(-50 * (x[0] - 0.2) ** 2 - 5 * (x[-1] - 0.5) ** 2),
    "peak_right": lambda x: 10 * math.exp(-50 * (x[0] - 0.85) ** 2 - 20 * (x[-1] - 0.9) ** 2),
    "peak_centre": lambda x: 10 * math.exp(-80 * sum((xx - 0.5) ** 2 for xx in x)),
    "anisotropic": lambda x: 10 * math.exp(-100 * (x[-1] - 0.7) ** 2) + x[0],
    "discontinuous": lambda x: 5.0 if x[0] + 0.5 * x[-1] < 0.7 else 0.0,
}


def _real_case(case):
    """one complete adaptive run driven by the default estimator; the basis components are checked at EVERY evaluation"""
    config = case["config"]
    strategy = config["strategy"].split("-")[0]
    d = config["d"]
    a, b = [0.0] * d, [1.0] * d
    drv = INTEGRANDS[config["integrand"]]
    subsets, mcomps, mexact = _multilinear(d, a, b)
    fails = []
    if strategy == "dw":
        from sparseSpACE.ErrorCalculator import ErrorCalculatorSingleDimVolumeGuided
        key = {"strategy": "dimension-wise", "estimator": "default"}
        if config.get("modified_basis"):
            lin = [i for i, S in enumerate(subsets) if len(S) <= 1]
            comps = lambda x: [drv(x)] + [mcomps(x)[i] for i in lin]
            exact = [mexact[i] for i in lin]
            names = [subsets[i] for i in lin]
        else:
            B = hats.sparse_basis(d, config["lmin"], config["lmax"], config["boundary"], a, b)
            comps = lambda x: [drv(x)] + [hats.ev(c, x) for c in B]
            exact = [hats.integral(c) for c in B]
            names = B
        r = dw.build(config, [], comps, 1 + len(exact), estimator=ErrorCalculatorSingleDimVolumeGuided(), perform=False)
        trace = []
        orig = r.sa.evaluate_operation

        def wrapper():
            out = orig()
            trace.append(np.array(r.op.get_result(), dtype=float).copy())
            return out
        r.sa.evaluate_operation = wrapper
        r.result = r.sa.performSpatiallyAdaptiv(config["lmin"], config["lmax"], r.eo, tol=0.0,
                                                max_evaluations=config["max_evaluations"], print_output=False)
        canon = dw.canon(r.sa)
        rotated = _tree_rotated(r.sa)
        key["tree_rotated"] = rotated
    else:
        key = {"strategy": "extend-split" if strategy == "es" else "cell", "estimator": "default"}
        comps = lambda x: [drv(x)] + mcomps(x)
        exact, names = mexact, subsets
        r = es.build_real(config, comps, 1 + len(exact), strategy, config["max_evaluations"])
        trace = r.trace
        canon = es.canon(r.sa) if strategy == "es" else _cell_canon(r.sa)
    for k, res in enumerate(trace):
        err = np.abs(res[1:] - np.array(exact))
        if not np.max(err) <= TOL * max(1.0, max(abs(e) for e in exact)):
            i = int(np.argmax(err))
            fails.append(fail("exactness_default_estimator", "evaluation %d: component %r integral %r, exact %r" % (k, names[i], res[1 + i], exact[i]), key))
            break
    final = np.asarray(r.result[3], dtype=float)
    if trace and not np.array_equal(final, trace[-1]):
        fails.append(fail("returned_result_is_last_evaluation", "returned %r, last evaluation %r" % (final[:2], trace[-1][:2]), key))
    return {"failures": fails, "canon": (config["integrand"], canon), "nontrivial": len(trace) > 1,
            "outcome": (len(trace), round(float(final[0]), 9)), "evals": len(trace)}


def run_case(case):
    if case["config"].get("strategy", "dw").endswith("-real"):
        return _real_case(case)
    strategy = case["config"].get("strategy", "dw")
    if strategy == "dw":
        return _dw_case(case)
    if strategy in ("es", "cell"):
        return _area_case(case)
    raise core.HarnessError("unknown strategy %r" % strategy)


def configs(tier):
    out = []

    def dwc(d, lmin, lmax, version, reb, bnd, D, s, modified=False, a=None, b=None, towards=None, **opts):
        c = {"strategy": "dw", "d": d, "lmin": lmin, "lmax": lmax, "version": version, "rebalancing": reb,
             "boundary": bnd, "modified_basis": modified, "s": s}
        c.update(opts)
        if towards:
            c["towards"] = towards
        if a is not None:
            c["a"], c["b"] = a, b
        out.append((c, D))
    def esc(d, lmax, version, nref, D, s, automatic=False, single=False, a=None, b=None, dimsets=None):
        c = {"strategy": "es", "d": d, "lmin": 1, "lmax": lmax, "version": version, "nref": nref, "automatic": automatic,
             "single_dim": single, "s": s, "special": d < 3}
        if dimsets:
            c["single_dimsets"] = dimsets
        if a is not None:
            c["a"], c["b"] = a, b
        out.append((c, D))

    def cellc(d, l, D, s, a=None, b=None):
        c = {"strategy": "cell", "d": d, "lmin": l, "lmax": l, "s": s}
        if a is not None:
            c["a"], c["b"] = a, b
        out.append((c, D))
    if tier == "quick":
        for version in (0, 1, 2):
            esc(2, 2, version, 1, 3, 1)
            esc(2, 2, version, 2, 2, 2)
        esc(2, 3, 0, 1, 2, 1)
        esc(3, 2, 0, 1, 2, 1)
        esc(2, 2, 0, 1, 2, 1, automatic=True)
        esc(2, 2, 0, 1, 2, 1, single=True)
        # single-dimension mode with TWO areas per round (a multi-dimensional split and an extend in the same round, either order)
        esc(2, 2, 0, 1, 2, 2, single=True, dimsets=[[0, 1]])
        # runs that start with lmax == lmin
        esc(2, 1, 0, 1, 3, 1)
        esc(3, 1, 0, 1, 2, 1)
        esc(2, 2, 0, 1, 2, 1, a=[-1.0, 2.0], b=[3.0, 4.0])
        cellc(2, 1, 3, 1)
        cellc(2, 1, 2, 2)
        cellc(2, 2, 2, 1)
        cellc(3, 1, 2, 1)
        cellc(2, 1, 2, 2, a=[-1.0, 2.0], b=[3.0, 4.0])
        for version in (6, 2, 3, 7, 8):
            dwc(2, 1, 2, version, False, True, 2, 2 if version == 6 else 1)
        dwc(2, 1, 2, 6, False, False, 2, 1)
        dwc(2, 1, 2, 6, True, True, 2, 1)
        dwc(2, 1, 3, 6, False, True, 2, 1)
        dwc(2, 2, 3, 6, False, True, 1, 2)
        dwc(2, 1, 2, 6, False, False, 2, 1, modified=True)
        dwc(2, 1, 2, 6, False, True, 2, 1, a=[-1.0, 2.0], b=[3.0, 4.0])
        dwc(3, 1, 2, 6, False, True, 1, 1)
        # the alternative coarsening versions with lmax - lmin = 2 and with d = 3, lmin = 2 (refinement in all dimensions at once)
        for version in (2, 3, 7, 8):
            dwc(2, 1, 3, version, False, True, 4, 1, towards=[[0.99, 0.99]])
            dwc(3, 2, 3, version, False, True, 1, 1)
        # rarely used public constructor options of the dimension-wise strategy
        dwc(2, 1, 2, 6, False, True, 2, 1, dim_adaptive=False)
        dwc(2, 1, 3, 6, False, True, 1, 1, dim_adaptive=False)
        dwc(2, 1, 2, 6, False, True, 2, 1, use_volume_weighting=True)
        for version in (6, 7, 8, 2, 3):
            dwc(2, 1, 2, version, False, True, 4, 1, towards=[[0.3, 0.3], [0.3, 0.8]])
        dwc(2, 1, 2, 6, False, False, 4, 1, modified=True, towards=[[0.3, 0.3]])
        # d = 3 with lmin = 2 (the scheme extension after raising a maximum level depends on (lmin-1)*(d-1))
        dwc(3, 2, 3, 6, False, True, 1, 1)
        # a domain far from the origin in one dimension (grid spacing tiny relative to the coordinates)
        for bnd in (True, False):
            dwc(2, 1, 2, 6, False, bnd, 3, 1, a=[1048576.0, -1.0], b=[1048577.0, 3.0], towards=[[1048576.3, 0.2]])
        esc(2, 2, 0, 1, 2, 1, a=[1048576.0, -1.0], b=[1048577.0, 3.0])
        # d = 3 with two targets: several dimensions raise their maximum level while coarse regions remain elsewhere
        dwc(3, 1, 2, 6, False, True, 3, 1, towards=[[0.3, 0.3, 0.3], [0.8, 0.3, 0.6]])
        # lmax - lmin = 2: anisotropic growth of the per-dimension maximum levels
        dwc(2, 1, 3, 6, False, True, 4, 1, towards=[[0.3, 0.3]])
        dwc(2, 1, 3, 7, False, True, 3, 1, towards=[[0.3, 0.8]])
    else:
        for version in (6, 7, 8, 2, 3):
            dwc(2, 1, 3, version, False, True, 5, 1, towards=[[0.3, 0.3], [0.3, 0.8]])
            dwc(2, 1, 4, version, False, True, 3, 1, towards=[[0.3, 0.3]])
        for version in (6, 7, 8, 2, 3):
            for bnd in (True, False):
                dwc(2, 1, 2, version, False, bnd, 6, 1, towards=[[0.3, 0.3], [0.3, 0.8], [0.6, 0.1]])
            dwc(3, 1, 2, version, False, True, 4, 1, towards=[[0.3, 0.3, 0.3], [0.8, 0.3, 0.6]])
            dwc(2, 1, 2, version, False, False, 5, 1, modified=True, towards=[[0.3, 0.3], [0.3, 0.8]])
        for version in (0, 1, 2):
            for nref in (1, 2):
                esc(2, 2, version, nref, 3, 2)
                esc(2, 3, version, nref, 3, 1)
                esc(3, 2, version, nref, 2, 1)
            esc(2, 2, version, 1, 3, 1, automatic=True)
            esc(2, 2, version, 1, 3, 1, single=True)
            esc(2, 2, version, 1, 2, 2, single=True)
            esc(2, 2, version, 2, 2, 2, single=True)
            esc(2, 2, version, 1, 2, 1, automatic=True, single=True)
            esc(2, 2, version, 1, 3, 1, a=[-1.0, 2.0], b=[3.0, 4.0])
        cellc(2, 1, 3, 2)
        cellc(2, 1, 4, 1)
        cellc(2, 2, 2, 2)
        cellc(3, 1, 2, 1)
        cellc(3, 2, 1, 1)
        cellc(2, 1, 3, 1, a=[-1.0, 2.0], b=[3.0, 4.0])
        for version in (6, 2, 3, 7, 8):
            for bnd in (True, False):
                dwc(2, 1, 2, version, False, bnd, 3, 2 if bnd else 1)
                dwc(2, 1, 3, version, False, bnd, 2, 2)
                dwc(2, 2, 3, version, False, bnd, 2, 1)
            dwc(2, 1, 2, version, True, True, 3, 1)
            dwc(2, 1, 2, version, False, False, 3, 1, modified=True)
            dwc(3, 1, 2, version, False, True, 2, 1)
        dwc(2, 1, 3, 6, False, False, 2, 1, modified=True)
        dwc(2, 1, 2, 6, False, True, 3, 1, a=[-1.0, 2.0], b=[3.0, 4.0])
        dwc(3, 1, 3, 6, False, True, 1, 1)
        dwc(3, 1, 2, 6, False, False, 2, 1, modified=True)
    return out


def real_cases(tier):
    cases = []
    names = sorted(INTEGRANDS)
    for integrand in names:
        for (lmin, lmax) in ((1, 2), (1, 3)) if tier != "quick" else ((1, 2),):
            for version in ((6, 2, 3, 7, 8) if tier != "quick" else (6, 3)):
                for bnd, mod in ((True, False), (False, False), (False, True)):
                    cases.append({"config": {"strategy": "dw-real", "d": 2, "lmin": lmin, "lmax": lmax, "version": version,
                                             "rebalancing": False, "boundary": bnd, "modified_basis": mod,
                                             "integrand": integrand, "max_evaluations": 150 if tier == "quick" else 400}})
            cases.append({"config": {"strategy": "dw-real", "d": 2, "lmin": lmin, "lmax": lmax, "version": 6, "rebalancing": True,
                                     "boundary": True, "modified_basis": False, "integrand": integrand,
                                     "max_evaluations": 150 if tier == "quick" else 400}})
        for version in (0, 1, 2):
            for nref in (1, 2):
                for auto, single in ((False, False), (True, False), (False, True)):
                    if tier == "quick" and (nref == 2 and (auto or single)):
                        continue
                    cases.append({"config": {"strategy": "es-real", "d": 2, "lmin": 1, "lmax": 2, "version": version, "nref": nref,
                                             "automatic": auto, "single_dim": single, "integrand": integrand,
                                             "max_evaluations": 200 if tier == "quick" else 600}})
        cases.append({"config": {"strategy": "cell-real", "d": 2, "lmin": 1, "lmax": 1, "integrand": integrand,
                                 "max_evaluations": 100 if tier == "quick" else 400}})
        cases.append({"config": {"strategy": "cell-real", "d": 2, "lmin": 2, "lmax": 2, "integrand": integrand,
                                 "max_evaluations": 100 if tier == "quick" else 400}})
        if tier != "quick":
            cases.append({"config": {"strategy": "dw-real", "d": 3, "lmin": 1, "lmax": 2, "version": 6, "rebalancing": False,
                                     "boundary": True, "modified_basis": False, "integrand": integrand, "max_evaluations": 300}})
            cases.append({"config": {"strategy": "es-real", "d": 3, "lmin": 1, "lmax": 2, "version": 0, "nref": 1,
                                     "automatic": False, "single_dim": False, "integrand": integrand, "max_evaluations": 800}})
            cases.append({"config": {"strategy": "cell-real", "d": 3, "lmin": 1, "lmax": 1, "integrand": integrand, "max_evaluations": 300}})
    return cases


def main(ctx):
    ctx.determinism_probe({"config": {"strategy": "dw", "d": 2, "lmin": 1, "lmax": 2, "version": 6, "rebalancing": False,
                                      "boundary": True, "modified_basis": False, "s": 1},
                           "history": [[[0, 0.0, 0.25]], [[0, 0.0, 0.125], [1, 0.5, 0.75]]]})
    for config, D in configs(ctx.tier):
        tag = "_".join("%s%s" % (k[:3], v) for k, v in config.items() if k not in ("a", "b", "towards")) + ("_box" if "a" in config else "") + \
              ("_towards" if config.get("towards") else "") + "_D%d" % D
        ctx.bounds[tag] = core.bfs(ctx, config, D, tag=tag)
    cases = real_cases(ctx.tier)
    for case, res in zip(cases, ctx.map(cases, chunksize=1)):
        ctx.absorb(case, res, state_key=("real", res["canon"]), group="default_estimator_" + case["config"]["strategy"])
    ctx.add_sample(cases[0])
    ctx.bounds["default_estimator_runs"] = {"runs": len(cases), "integrands": sorted(INTEGRANDS)}
    return ctx.finish(
        rule="state = refinement structure reached by a history of refinement decisions (scripted estimator, real loop); the "
             "integrand carries a basis of the claimed exactness space as extra output components; events = subsets of <= s "
             "refinement objects plus 'all'/'all of one dimension'; non-trivial = state reached by >= 1 refinement",
        assumptions=["float-exact boxes ([0,1]^d and [-1,3]x[2,4]); d<=3; bounds per configuration in bounds_completed",
                     "exactness tolerance 1e-11 (integrals) / 1e-10 (interpolation at the off-grid lattice)",
                     "with rebalancing=True the initial-space oracle failure is the known finding; multilinear exactness stays demanded"])
