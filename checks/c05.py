"""C05 - the reported result is the combination of the component results.

For the standard combination (lattice of configurations), the dimension-adaptive driver (BFS over scripted
surplus rankings), the dimension-wise strategy and extend-split version 0 (BFS over refinement-decision histories;
every state is the stop of its history): reported value == sum_c coefficient_c * (operation applied to component c on a
FRESH grid object; per leaf area for extend-split) == evaluate_final_combi() == the same history run with
reevaluate_at_end=True; for nodal grids sum_i w_i f(p_i) over get_points_and_weights() == reported value.
"""
import itertools
import math

import numpy as np

from mc import core, dw, es
from mc.core import fail

PID = "C05"
RTOL = 1e-11


def _vec(x):
    x0, xl = float(x[0]), float(x[-1])
    s = sum(float(t) for t in x)
    return [math.exp(x0 + 2 * xl), 1.0 / (1 + 3 * x0 * x0 + xl), abs(x0 - 1 / 3) + math.sin(4 * xl),
            (2.0 if x0 + 0.5 * xl < 0.7 else -1.0), math.sin(3 * x0 + 1) * math.exp(xl), math.cos(5 * s)]


def _scalar(x):
    return [_vec(x)[4]]


FUNCS = {"vector": (_vec, 6), "scalar": (_scalar, 1)}


def _close(a, b, scale=None):
    a, b = np.asarray(a, dtype=float), np.asarray(b, dtype=float)
    if a.shape != b.shape:
        return False
    sc = max(1.0, float(np.max(np.abs(b)))) if scale is None else scale
    return bool(np.max(np.abs(a - b)) <= RTOL * sc)


# ------------------------------------------------------------------ dimension-wise
NODAL = ("trapezoidal", "highorder", "romberg")      # grid families whose result is sum_i w_i f(p_i)


def _dw_fresh_sum(sa, op, config):
    """every component grid evaluated independently on a FRESH grid object of the same family"""
    tot = np.zeros(op.f.output_length())
    mag = 0.0
    a, b = np.array(sa.a, dtype=float), np.array(sa.b, dtype=float)
    nodal = config.get("grid", "trapezoidal").startswith(NODAL)
    for c in sa.scheme:
        pc, pl, _ = sa.get_point_coord_for_each_dim(c.levelvector)
        g = dw.global_grid(config, a, b)
        g.set_grid(pc, pl)
        if nodal:
            pts, w = g.get_points_and_weights()
            val = np.zeros(op.f.output_length())
            for p, ww in zip(pts, w):
                val += ww * np.asarray(op.f.eval(tuple(p)), dtype=float)
        else:
            val = np.asarray(g.integrate(op.f, c.levelvector, a, b), dtype=float)
        tot += c.coefficient * val
        mag += abs(c.coefficient) * float(np.max(np.abs(val)))
    return tot, max(mag, 1.0)


def _dw_case(case):
    config, history = case["config"], case["history"]
    comps, n = FUNCS[config["func"]]
    key = {"strategy": "dimension-wise"}
    if config.get("grid", "trapezoidal") != "trapezoidal":
        key["grid"] = config["grid"]
    nodal = config.get("grid", "trapezoidal").startswith(NODAL)
    store = {}
    steps = []

    def observer(run):
        # at EVERY evaluation (a stop of the run, had the limits been smaller): the public points and combined weights must reproduce
        # the value the operation reports at that moment
        P, W = run.sa.get_points_and_weights()
        pw = np.zeros(n)
        for p, ww in zip(P, W):
            pw += ww * np.asarray(run.op.f.eval(tuple(p)), dtype=float)
        steps.append((np.array(run.op.get_result(), dtype=float).copy(), pw, run.sa.get_total_num_points()))
        if nodal and config.get("grid", "trapezoidal") == "trapezoidal" and config.get("boundary", True):
            # a user monitoring the run also interpolates the current combination: looking must not change anything (the unobserved
            # twin run below has to end in the same structure, result and point count)
            d = config["d"]
            run.sa([tuple(0.3 + 0.1 * k for k in range(d)), tuple(0.55 for _ in range(d)), tuple(1.0 - 0.2 * k for k in range(d))])
    r = dw.build(config, history, comps, n, observer=observer, perform_kwargs={"solutions_storage": store})
    sa, op = r.sa, r.op
    res = np.array(r.result[3], dtype=float)
    fails = []
    for k, (val, pw, npts) in enumerate(steps):
        if nodal and not _close(pw, val, max(1.0, float(np.max(np.abs(val))))):
            fails.append(fail("points_and_weights_reproduce_result", "evaluation %d of %d: sum w f(p) = %r, reported %r" % (k, len(steps), pw, val), key))
            break
    fails += _storage_failures(store, steps, key)
    fresh, mag = _dw_fresh_sum(sa, op, config)
    if not _close(res, fresh, mag):
        fails.append(fail("result_equals_fresh_component_sum", "reported %r, fresh component sum %r" % (res, fresh), key))
    if not _close(res, np.asarray(op.get_result(), dtype=float), mag):
        fails.append(fail("returned_equals_operation_result", "returned %r, get_result %r" % (res, op.get_result()), key))
    pts, w = sa.get_points_and_weights()
    pw = np.zeros(n)
    for p, ww in zip(pts, w):
        pw += ww * np.asarray(op.f.eval(tuple(p)), dtype=float)
    if nodal and not _close(pw, res, mag):
        fails.append(fail("points_and_weights_reproduce_result", "sum w f(p) = %r, reported %r" % (pw, res), key))
    # same history, re-evaluation requested at the end
    r2 = dw.build(config, history, comps, n, perform_kwargs={"reevaluate_at_end": True})
    res2 = np.array(r2.result[3], dtype=float)
    if not _close(res2, res, mag):
        fails.append(fail("reevaluate_at_end_changes_result", "without %r, with reevaluate_at_end %r" % (res, res2), key))
    if dw.canon(r2.sa) != dw.canon(sa) or r2.sa.get_total_num_points() != sa.get_total_num_points():
        fails.append(fail("observation_changes_run", "observed run (points/weights and interpolation queried at every evaluation): %d points, unobserved twin: %d points; structures equal: %r"
                          % (sa.get_total_num_points(), r2.sa.get_total_num_points(), dw.canon(r2.sa) == dw.canon(sa)), key))
    # the same script, but the run is ended by its TIME budget (virtual clock) after the last-but-one evaluation (every state is the
    # last-but-one state of each of its successors, so every evaluation index of every history is covered): a stop like any other -
    # the reported value must be the combination of the scheme and grids the instance is left with
    for k in range(max(len(history) - 1, 0), len(history)):
        rt = dw.build(config, history, comps, n, time_stop=k)
        rest = np.array(rt.result[3], dtype=float)
        fresht, magt = _dw_fresh_sum(rt.sa, rt.op, config)
        if rt.steps_executed != k or not _close(rest, fresht, magt):
            fails.append(fail("time_budget_stop", "time budget expiring after evaluation %d of a %d-step script: %d refinement steps executed, reported %r, "
                              "fresh component sum of the final structure %r" % (k, len(history), rt.steps_executed, rest, fresht), key))
            break
    # from-scratch re-evaluation of the final refinement (done last: it may disturb the instance)
    ev = sa.evaluate_final_combi()
    if not _close(np.asarray(ev[0], dtype=float), res, mag):
        fails.append(fail("evaluate_final_combi_differs", "reported %r, evaluate_final_combi %r" % (res, np.asarray(ev[0])), key))
    out = {"failures": fails, "canon": (dw.canon(sa), op.f.get_f_dict_size()), "nontrivial": len(history) > 0,
           "outcome": tuple(round(float(x), 10) for x in res)}
    if case.get("want_events", False):
        out["events"] = dw.events_for(sa, config)
    return out


def _storage_failures(store, steps, key):
    """solutions_storage must hold, per number of points, the combined value reported at THAT evaluation"""
    out = []
    by_points = {}
    for val, _, npts in steps:
        by_points[npts] = val          # a later evaluation with the same point count overwrites, as in the library
    for npts, val in by_points.items():
        got = store.get(npts)
        if got is None:
            out.append(fail("solutions_storage", "no stored solution for %d points (keys %r)" % (npts, sorted(store)), key))
            break
        if not _close(np.asarray(got, dtype=float), val, max(1.0, float(np.max(np.abs(val))))):
            out.append(fail("solutions_storage", "stored solution for %d points is %r, the value reported at that evaluation was %r" % (npts, np.asarray(got), val), key))
            break
    return out


# ------------------------------------------------------------------ extend-split
def _es_fresh_sum(sa, op, config):
    g = es.make_grid(config, np.array(sa.a, dtype=float), np.array(sa.b, dtype=float))
    tot = np.zeros(op.f.output_length())
    mag = 0.0
    per_area = []
    for o in sa.refinement.get_objects():
        area_val = np.zeros(op.f.output_length())
        for c in sa.scheme:
            lv, do = sa.coarsen_grid(c.levelvector, o)
            if do:
                v = np.asarray(g.integrate(op.f, lv, o.start, o.end), dtype=float)
                area_val += c.coefficient * v
                mag += abs(c.coefficient) * float(np.max(np.abs(v)))
        per_area.append(area_val)
        tot += area_val
    return tot, max(mag, 1.0), per_area


def _es_case(case):
    config, history = case["config"], case["history"]
    comps, n = FUNCS[config["func"]]
    key = {"strategy": "extend-split"}
    store = {}
    r = es.build(config, history, comps, n, perform_kwargs={"solutions_storage": store})
    sa, op = r.sa, r.op
    res = np.array(r.result[3], dtype=float)
    fails = []
    fails += _storage_failures(store, [(v, None, p) for v, p in r.steps], key)
    # frequent recalculation (all areas re-evaluated from scratch every 2 refinements) must not change the reported value
    if history:
        r3 = es.build(config, history, comps, n, perform_kwargs={"recalculate_frequently": True}, recalc_every=2)
        res3 = np.array(r3.result[3], dtype=float)
        if not _close(res3, res, max(1.0, float(np.max(np.abs(res))))):
            fails.append(fail("recalculate_frequently_changes_result", "without %r, with recalculate_frequently (every 2 refinements) %r" % (res, res3), key))
    fresh, mag, per_area = _es_fresh_sum(sa, op, config)
    if not _close(res, fresh, mag):
        fails.append(fail("result_equals_fresh_component_sum", "reported %r, fresh per-area component sum %r" % (res, fresh), key))
    vals = sum(np.asarray(o.value, dtype=float) for o in sa.refinement.get_objects())
    if not _close(res, vals, mag):
        fails.append(fail("result_equals_sum_of_area_values", "reported %r, sum of area values %r" % (res, vals), key))
    for o, v in zip(sa.refinement.get_objects(), per_area):
        if not _close(np.asarray(o.value, dtype=float), v, mag):
            fails.append(fail("area_value_equals_fresh_area_sum", "area %r-%r value %r, fresh %r" % (list(o.start), list(o.end), o.value, v), key))
            break
    if not _close(np.asarray(sa.refinement.value, dtype=float), res, mag):
        fails.append(fail("container_value", "container value %r, reported %r" % (sa.refinement.value, res), key))
    r2 = es.build(config, history, comps, n, perform_kwargs={"reevaluate_at_end": True})
    res2 = np.array(r2.result[3], dtype=float)
    if not _close(res2, res, mag):
        fails.append(fail("reevaluate_at_end_changes_result", "without %r, with reevaluate_at_end %r" % (res, res2), key))
    if es.canon(r2.sa) != es.canon(sa) or r2.sa.get_total_num_points() != sa.get_total_num_points():
        fails.append(fail("twin_run_differs", "same history with reevaluate_at_end: %d points vs %d points; structures equal: %r"
                          % (r2.sa.get_total_num_points(), sa.get_total_num_points(), es.canon(r2.sa) == es.canon(sa)), key))
    for k in range(max(len(history) - 1, 0), len(history)):
        rt = es.build(config, history, comps, n, time_stop=k)
        rest = np.array(rt.result[3], dtype=float)
        fresht, magt, _ = _es_fresh_sum(rt.sa, rt.op, config)
        if rt.steps_executed != k or not _close(rest, fresht, magt):
            fails.append(fail("time_budget_stop", "time budget expiring after evaluation %d of a %d-step script: %d refinement steps executed, reported %r, "
                              "fresh per-area component sum of the final structure %r" % (k, len(history), rt.steps_executed, rest, fresht), key))
            break
    # every earlier stop of the same script: the user asks for a re-evaluation there (evaluate_final_combi), then continues the run;
    # the value reported at the end of the continuation is again the combination of ITS component results
    for k in range(len(history)):
        rc = es.build(config, history, comps, n, resume=(k, "final_combi_then_continue"))
        resc = np.array(rc.result[3], dtype=float)
        freshc, magc, _ = _es_fresh_sum(rc.sa, rc.op, config)
        if not _close(resc, freshc, magc):
            fails.append(fail("result_after_reevaluation_and_continuation", "stop after %d of %d scripted steps, evaluate_final_combi() (= %r), continue: reported %r, "
                              "fresh per-area component sum of the final structure %r" % (k, len(history), rc.final_combi, resc, freshc), key))
            break
    ev = sa.evaluate_final_combi()
    if not _close(np.asarray(ev[0], dtype=float), res, mag):
        fails.append(fail("evaluate_final_combi_differs", "reported %r, evaluate_final_combi %r" % (res, np.asarray(ev[0])), key))
    out = {"failures": fails, "canon": (es.canon(sa), op.f.get_f_dict_size()), "nontrivial": len(history) > 0,
           "outcome": tuple(round(float(x), 10) for x in res)}
    if case.get("want_events", False):
        out["events"] = es.events(sa, config)
    return out


# ------------------------------------------------------------------ standard combination (lattice)
def _make_grid(name, a, b, boundary):
    from sparseSpACE import Grid as G
    if name == "trapezoidal":
        return G.TrapezoidalGrid(a, b, boundary=boundary)
    if name == "simpson":
        return G.SimpsonGrid(a, b, boundary=boundary)
    if name == "clenshaw_curtis":
        return G.ClenshawCurtisGrid(a, b, boundary=boundary)
    if name == "leja":
        return G.LejaGrid(a, b, boundary=boundary)
    if name == "gauss_legendre":
        return G.GaussLegendreGrid(a, b)
    raise ValueError(name)


def _std_case(case):
    from sparseSpACE.StandardCombi import StandardCombi
    from sparseSpACE.GridOperation import Integration
    from sparseSpACE.Function import CustomFunction
    c = case["config"]
    d = c["d"]
    a, b = np.array(c["a"], dtype=float), np.array(c["b"], dtype=float)
    comps, n = FUNCS[c["func"]]
    key = {"strategy": "standard", "grid": c["grid"]}
    grid = _make_grid(c["grid"], a, b, c["boundary"])
    f = CustomFunction(comps, output_length=n)
    op = Integration(f, grid=grid, dim=d, reference_solution=None)
    combi = StandardCombi(a, b, operation=op, print_output=False, print_level=1000, log_level=1000)
    scheme, err, res = combi.perform_operation(c["lmin"], c["lmax"])
    res = np.array(res, dtype=float)
    fails = []
    fresh_grid = _make_grid(c["grid"], a, b, c["boundary"])
    f2 = CustomFunction(comps, output_length=n)
    tot = np.zeros(n)
    mag = 0.0
    for comp in scheme:
        v = np.asarray(fresh_grid.integrate(f2, comp.levelvector, a, b), dtype=float)
        tot += comp.coefficient * v
        mag += abs(comp.coefficient) * float(np.max(np.abs(v)))
    mag = max(mag, 1.0)
    if not _close(res, tot, mag):
        fails.append(fail("result_equals_fresh_component_sum", "reported %r, fresh %r" % (res, tot), key))
    pts, w = combi.get_points_and_weights()
    pw = np.zeros(n)
    for p, ww in zip(pts, w):
        pw += ww * np.asarray(f.eval(tuple(p)), dtype=float)
    if not _close(pw, res, mag):
        fails.append(fail("points_and_weights_reproduce_result", "sum w f(p) = %r, reported %r" % (pw, res), key))
    # performing the operation a second time on the same instance must not accumulate
    scheme2, err2, res_again = combi.perform_operation(c["lmin"], c["lmax"])
    if not _close(np.asarray(res_again, dtype=float), res, mag):
        fails.append(fail("second_perform_operation_differs", "first %r, second %r" % (res, res_again), key))
    return {"failures": fails, "canon": ("std", core.config_key(c)), "nontrivial": c["lmax"] > c["lmin"],
            "outcome": tuple(round(float(x), 10) for x in res)}


# ------------------------------------------------------------------ dimension-adaptive driver (scripted surplus ranking)
def _dimadapt_budget_stop(c, history, budget, g2, f2, key):
    from sparseSpACE.DimAdaptiveCombi import DimAdaptiveCombi
    from sparseSpACE.GridOperation import Integration
    from sparseSpACE.Function import CustomFunction
    from sparseSpACE.Grid import TrapezoidalGrid
    d = c["d"]
    a, b = np.zeros(d), np.ones(d)
    comps, n = FUNCS[c["func"]]
    grid3 = TrapezoidalGrid(a, b, boundary=c["boundary"])
    op3 = Integration(CustomFunction(comps, output_length=n), grid=grid3, dim=d, reference_solution=np.full(n, 0.123456789))
    combi3 = DimAdaptiveCombi(a, b, operation=op3)
    st3 = {"pointer": 0}

    def surplus3(component_grid, integral_dict):
        k = st3["pointer"]
        return 1.0 if k < len(history) and tuple(int(x) for x in component_grid.levelvector) == history[k] else 0.0
    real_count3 = combi3.get_total_num_points

    def count3(*args, **kw):
        if kw.get("distinct_function_evals"):
            st3["pointer"] += 1
            if st3["pointer"] > len(history) + 2:
                raise core.HarnessError("run with max_number_of_points=%d did not stop within %d rounds" % (budget, len(history) + 2))
        return real_count3(*args, **kw)
    combi3.calculate_surplus = surplus3
    combi3.get_total_num_points = count3
    scheme3, err3, res3, errors3, np3 = combi3.perform_combi(c["lmin"], 2, -1.0, max_number_of_points=budget)
    res3 = np.array(res3, dtype=float)
    tot3, mag3 = np.zeros(n), 0.0
    for comp in scheme3:
        v = np.asarray(g2.integrate(f2, comp.levelvector, a, b), dtype=float)
        tot3 += comp.coefficient * v
        mag3 += abs(comp.coefficient) * float(np.max(np.abs(v)))
    if not _close(res3, tot3, max(mag3, 1.0)):
        return [fail("point_budget_stop", "run ended by max_number_of_points=%d: reported %r, fresh component sum of the reported scheme %r; scheme %r"
                     % (budget, res3, tot3, [(tuple(x.levelvector), x.coefficient) for x in scheme3]), key)]
    return []


def _dimadapt_case(case):
    from sparseSpACE.DimAdaptiveCombi import DimAdaptiveCombi
    from sparseSpACE.GridOperation import Integration
    from sparseSpACE.Function import CustomFunction
    from sparseSpACE.Grid import TrapezoidalGrid
    c, history = case["config"], [tuple(h) for h in case["history"]]
    d = c["d"]
    a, b = np.zeros(d), np.ones(d)
    comps, n = FUNCS[c["func"]]
    key = {"strategy": "dimension-adaptive"}
    grid = TrapezoidalGrid(a, b, boundary=c["boundary"])
    f = CustomFunction(comps, output_length=n)
    op = Integration(f, grid=grid, dim=d, reference_solution=np.full(n, 0.123456789))
    combi = DimAdaptiveCombi(a, b, operation=op)
    state = {"pointer": 0}

    def surplus(component_grid, integral_dict):
        k = state["pointer"]
        if k < len(history) and tuple(int(x) for x in component_grid.levelvector) == history[k]:
            return 1.0
        return 0.0
    real_count = combi.get_total_num_points
    real_counts = []

    class _Exhausted(Exception):
        pass

    def count(*args, **kw):
        if kw.get("distinct_function_evals"):
            real_counts.append(real_count(*args, **kw))
            if len(real_counts) > len(history):
                # the script ends the run by reporting a huge point count through get_total_num_points(); a driver that decides its
                # point budget some other way goes on refining: the scripted stage gives no verdict then, the real budget below does
                raise _Exhausted()
        if state["pointer"] >= len(history):
            return 10 ** 12
        if kw.get("distinct_function_evals"):
            state["pointer"] += 1
            return real_counts[-1]
        return real_count(*args, **kw)
    combi.calculate_surplus = surplus
    combi.get_total_num_points = count
    fails = []
    g2 = TrapezoidalGrid(a, b, boundary=c["boundary"])
    f2 = CustomFunction(comps, output_length=n)
    try:
        scheme, err, res, errors, num_points = combi.perform_combi(c["lmin"], 2, -1.0, max_number_of_points=10 ** 9)
    except _Exhausted:
        fails += _dimadapt_budget_stop(c, history, int(real_counts[-1]) - 1, g2, f2, key)
        return {"failures": fails, "canon": None, "nontrivial": True, "outcome": ("scripted stage without verdict", len(fails)), "events": []}
    if state["pointer"] != len(history):
        raise core.HarnessError("dimension-adaptive loop executed %d of %d scripted steps" % (state["pointer"], len(history)))
    res = np.array(res, dtype=float)
    tot = np.zeros(n)
    mag = 0.0
    for comp in scheme:
        v = np.asarray(g2.integrate(f2, comp.levelvector, a, b), dtype=float)
        tot += comp.coefficient * v
        mag += abs(comp.coefficient) * float(np.max(np.abs(v)))
    mag = max(mag, 1.0)
    if not _close(res, tot, mag):
        fails.append(fail("result_equals_fresh_component_sum", "reported %r, fresh %r; scheme %r" % (res, tot, [(tuple(x.levelvector), x.coefficient) for x in scheme]), key))
    if not _close(np.asarray(err, dtype=float), np.abs(res - 0.123456789), mag):
        fails.append(fail("reported_difference", "reported difference %r, |result-reference| %r" % (err, np.abs(res - 0.123456789)), key))
    # the same script ended by a REAL point budget (the largest budget that is exceeded by the last-but-one scripted round): a run
    # stopped by max_number_of_points is a stop like any other - the reported value must be the combination of the reported scheme
    if len(num_points) >= 2 and num_points[-1] > num_points[-2]:
        fails += _dimadapt_budget_stop(c, history, int(num_points[-1]) - 1, g2, f2, key)
    cs = combi.combischeme
    out = {"failures": fails, "canon": (tuple(sorted(cs.old_index_set)), tuple(sorted(cs.active_index_set))),
           "nontrivial": len(history) > 0, "outcome": tuple(round(float(x), 10) for x in res)}
    if case.get("want_events", False):
        out["events"] = [list(l) for l in sorted(cs.active_index_set)]
    return out


def run_case(case):
    s = case["config"]["strategy"]
    return {"dw": _dw_case, "es": _es_case, "std": _std_case, "dimadapt": _dimadapt_case}[s](case)


def std_cases(tier):
    cases = []
    boxes = {1: [([0.0], [1.0]), ([-1.0], [3.0])],
             2: [([0.0, 0.0], [1.0, 1.0]), ([-3.0, 2.0], [6.0, 4.0])],
             3: [([0.0, 0.0, 0.0], [1.0, 1.0, 1.0])]}
    for d in (1, 2, 3):
        maxl = {1: 5, 2: 4, 3: 3}[d] if tier != "quick" else {1: 4, 2: 3, 3: 3}[d]
        for lmin in range(1, maxl + 1):
            for lmax in range(lmin, maxl + 1):
                for a, b in boxes[d]:
                    for grid, bnd in (("trapezoidal", True), ("trapezoidal", False), ("simpson", True),
                                      ("clenshaw_curtis", True), ("leja", True), ("gauss_legendre", True)):
                        if grid in ("leja", "clenshaw_curtis") and lmax > 3:
                            continue
                        for func in (("vector", "scalar") if (d == 2 and lmax <= 3) else ("vector",)):
                            cases.append({"config": {"strategy": "std", "d": d, "lmin": lmin, "lmax": lmax, "a": a, "b": b,
                                                     "grid": grid, "boundary": bnd, "func": func}})
    return cases


def main(ctx):
    ctx.determinism_probe({"config": {"strategy": "dw", "d": 2, "lmin": 1, "lmax": 2, "version": 6, "rebalancing": True,
                                      "boundary": True, "s": 1, "func": "vector"},
                           "history": [[[0, 0.0, 0.25]], [[0, 0.0, 0.125], [1, 0.5, 0.75]]]})
    q = ctx.tier == "quick"
    # 1) standard combination: complete lattice
    cases = std_cases(ctx.tier)
    for case, res in zip(cases, ctx.map(cases)):
        ctx.absorb(case, res, group="standard")
    ctx.add_sample(cases[len(cases) // 2])
    ctx.bounds["standard"] = {"cases": len(cases)}
    # 2) dimension-adaptive driver
    for d, lmin, D in ((2, 1, 3 if q else 5), (3, 1, 2 if q else 3), (2, 2, 2 if q else 3)):
        for bnd in (True, False):
            cfg = {"strategy": "dimadapt", "d": d, "lmin": lmin, "boundary": bnd, "func": "vector"}
            ctx.bounds["dimadapt_d%d_lmin%d_bnd%d" % (d, lmin, bnd)] = core.bfs(ctx, cfg, D, tag="dimadapt_d%d_lmin%d_bnd%d" % (d, lmin, bnd))
    # 3) dimension-wise
    dwc = []
    for reb in (True, False):
        for bnd in (True, False):
            dwc.append(({"strategy": "dw", "d": 2, "lmin": 1, "lmax": 2, "version": 6, "rebalancing": reb, "boundary": bnd,
                         "s": 2 if (q and reb and bnd) or not q else 1, "func": "vector"}, 2))
            if not q:    # (pairs of intervals at depth 3 are ~10^5 transitions per configuration: depth 3 with single intervals instead)
                dwc.append(({"strategy": "dw", "d": 2, "lmin": 1, "lmax": 2, "version": 6, "rebalancing": reb, "boundary": bnd,
                             "s": 1, "func": "vector"}, 3))
    dwc.append(({"strategy": "dw", "d": 2, "lmin": 1, "lmax": 2, "version": 6, "rebalancing": True, "boundary": True, "s": 1,
                 "func": "scalar"}, 2))
    dwc.append(({"strategy": "dw", "d": 2, "lmin": 1, "lmax": 3, "version": 6, "rebalancing": True, "boundary": True, "s": 1,
                 "func": "vector"}, 1 if q else 2))
    dwc.append(({"strategy": "dw", "d": 3, "lmin": 1, "lmax": 2, "version": 6, "rebalancing": True, "boundary": True, "s": 1,
                 "func": "vector"}, 1 if q else 2))
    dwc.append(({"strategy": "dw", "d": 2, "lmin": 1, "lmax": 2, "version": 6, "rebalancing": False, "boundary": False,
                 "modified_basis": True, "s": 1, "func": "vector"}, 2))
    # other global grid families of the dimension-wise strategy (graded histories keep the deeper runs small)
    for grid in ("highorder3", "highorder3s", "lagrange2", "bspline3", "romberg"):
        # (the Romberg grid asserts dyadic step widths per level: it refuses the level labellings rebalancing produces)
        dwc.append(({"strategy": "dw", "d": 2, "lmin": 1, "lmax": 2, "version": 6, "rebalancing": grid != "romberg", "boundary": True, "s": 1,
                     "func": "vector", "grid": grid, "towards": [[0.3, 0.3], [0.3, 0.8]]}, 3 if q else 5))
    if not q:
        for version in (2, 3, 7, 8):
            dwc.append(({"strategy": "dw", "d": 2, "lmin": 1, "lmax": 2, "version": version, "rebalancing": True,
                         "boundary": True, "s": 1, "func": "vector"}, 3))
    for cfg, D in dwc:
        tag = "dw_d%d_l%d%d_v%d_reb%d_bnd%d_mod%d_%s_D%d_s%d%s" % (cfg["d"], cfg["lmin"], cfg["lmax"], cfg["version"], cfg["rebalancing"],
                                                                   cfg["boundary"], cfg.get("modified_basis", False), cfg["func"], D, cfg["s"],
                                                                   "_" + cfg["grid"] if cfg.get("grid") else "")
        ctx.bounds[tag] = core.bfs(ctx, cfg, D, tag=tag)
    # 4) extend-split, default coarsening version 0
    esc = []
    for nref in (1, 2):
        esc.append(({"strategy": "es", "d": 2, "lmin": 1, "lmax": 2, "version": 0, "nref": nref, "automatic": False,
                     "single_dim": False, "s": 1 if q else 2, "func": "vector"}, 3))
    esc.append(({"strategy": "es", "d": 2, "lmin": 1, "lmax": 3, "version": 0, "nref": 1, "automatic": False, "single_dim": False,
                 "s": 1, "func": "scalar"}, 2))
    esc.append(({"strategy": "es", "d": 3, "lmin": 1, "lmax": 2, "version": 0, "nref": 1, "automatic": False, "single_dim": False,
                 "s": 1, "special": False, "func": "vector"}, 1 if q else 2))
    esc.append(({"strategy": "es", "d": 2, "lmin": 1, "lmax": 2, "version": 0, "nref": 1, "automatic": True, "single_dim": False,
                 "s": 1, "func": "vector"}, 2))
    esc.append(({"strategy": "es", "d": 2, "lmin": 1, "lmax": 2, "version": 0, "nref": 1, "automatic": False, "single_dim": True,
                 "s": 1, "func": "vector"}, 2))
    # runs that START with lmax == lmin (legal; every area begins at the coarsest possible local scheme)
    esc.append(({"strategy": "es", "d": 2, "lmin": 1, "lmax": 1, "version": 0, "nref": 1, "automatic": False, "single_dim": False,
                 "s": 1, "func": "vector"}, 3))
    esc.append(({"strategy": "es", "d": 2, "lmin": 2, "lmax": 2, "version": 0, "nref": 1, "automatic": False, "single_dim": False,
                 "s": 1, "func": "scalar", "towards": [[0.3, 0.3], [0.8, 0.8]]}, 3 if q else 4))
    esc.append(({"strategy": "es", "d": 3, "lmin": 1, "lmax": 1, "version": 0, "nref": 1, "automatic": False, "single_dim": False,
                 "s": 1, "special": False, "func": "vector", "towards": [[0.3, 0.3, 0.3], [0.8, 0.8, 0.2]]}, 2 if q else 3))
    # other grid families under extend-split (high-order grids switch the automatic mode to the parent-based estimates)
    for grid in ("lagrange2", "bspline3", "simpson"):
        for auto in (False, True):
            esc.append(({"strategy": "es", "d": 2, "lmin": 1, "lmax": 2 if q else 3, "version": 0, "nref": 1, "automatic": auto,
                         "single_dim": False, "s": 1, "grid": grid, "func": "vector" if grid != "lagrange2" else "scalar"}, 2))
    esc.append(({"strategy": "es", "d": 2, "lmin": 1, "lmax": 2, "version": 0, "nref": 1, "automatic": True, "single_dim": False,
                 "s": 1, "grid": "lagrange2", "func": "vector", "towards": [[0.3, 0.3], [0.8, 0.8]]}, 4))
    for cfg, D in esc:
        tag = "es_%s_d%d_lmin%d_lmax%d_nref%d_auto%d_single%d_%s_D%d_s%d" % (cfg.get("grid", "trapezoidal"), cfg["d"], cfg["lmin"], cfg["lmax"], cfg["nref"], cfg["automatic"],
                                                                     cfg["single_dim"], cfg["func"], D, cfg["s"])
        ctx.bounds[tag] = core.bfs(ctx, cfg, D, tag=tag)
    return ctx.finish(
        rule="standard combination: complete lattice d x (lmin<=lmax) x box x grid family x boundary; dimension-adaptive: BFS over "
             "scripted surplus rankings (which active index is refined); dimension-wise / extend-split: BFS over refinement-decision "
             "histories, every state being the stop of its history; canonical state includes the number of evaluated points; "
             "non-trivial = at least one refinement step (lmax>lmin for the standard combination)",
        assumptions=["integrand menu: 6 non-polynomial functions carried as one vector-valued integrand plus one scalar integrand "
                     "(with the scripted estimator the integrand does not influence the history)",
                     "relative tolerance 1e-11 w.r.t. sum |coefficient * component value|",
                     "extend-split only in its default coarsening version 0 (as the statement says)"])
