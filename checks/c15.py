"""C15 - weighted UQ quadrature is a probability measure; moments transform correctly.

(a) lattice: distribution (Uniform, Triangle x3, Normal on infinite support and on the finite box mu+-6 sigma) x
boundary flag x EVERY refinement tree with leaves at depth<=m built with the grid's own probability-halving midpoint,
plus chains of splits towards each tail.  Oracle: weights >= 0, sum to 1, equal unweighted/(b-a) for the uniform
distribution with boundary points; every midpoint lies strictly inside its interval and halves its probability.
(b) histories: BFS over refinement decisions of the dimension-wise strategy with UncertaintyQuantification +
GlobalTrapezoidalGridWeighted; model (f, c f + e, const) as ONE vector-valued function (shared grid); after every
history E[cf+e]=cE[f]+e, Var[cf+e]=c^2 Var[f], Var>=0, constant -> (const, 0).
"""
import itertools
import math

import numpy as np

from mc import core, dw, trees
from mc.core import fail

PID = "C15"
INF = float("inf")

DISTS = {
    "uniform": (("Uniform",), -1.0, 3.0),
    "uniform01": (("Uniform",), 0.0, 1.0),
    "triangle_mid": (("Triangle", 1.0), -1.0, 3.0),
    "triangle_left": (("Triangle", -0.5), -1.0, 3.0),
    "triangle_right": (("Triangle", 2.75), -1.0, 3.0),
    "normal_inf": (("Normal", 0.2, 1.0), -INF, INF),
    "normal_box": (("Normal", 0.0, 2.0), -12.0, 12.0),
    # a finite support that cuts a noticeable part of the mass (about 2.5 %); without boundary points the rule renormalises to 1
    "normal_cut": (("Normal", 0.0, 1.0), -2.2, 2.3),
    # degenerate triangle: peak at the lower end of the support (peak at the UPPER end is not usable in the pinned environment:
    # chaospy's Triangle(lower, midpoint=upper, upper) returns cdf(upper) = 0)
    "triangle_peak_at_a": (("Triangle", -1.0), -1.0, 3.0),
    "triangle_peak_zero": (("Triangle", 0.0), -1.0, 3.0),            # a parameter that is exactly 0.0
    # supports far from the origin (interval lengths tiny relative to the coordinates)
    "uniform_far": (("Uniform",), 1048576.0, 1048577.0),
    "triangle_far": (("Triangle", 1048576.25), 1048576.0, 1048577.0),
    "normal_far_mean": (("Normal", 1048576.0, 0.5), -INF, INF),
}


# different distributions / parameters per dimension (the per-dimension objects must not share their parameters)
MIXED = {
    "mix_normal_normal": ["normal_inf", "normal_far"],
    "mix_normal_triangle": ["normal_box", "triangle_mid"],
    "mix_uniform_normal": ["uniform01", "normal_inf"],
    "mix_triangle_triangle": ["triangle_left", "triangle_right"],
    # the SAME distribution tuple in both dimensions, but different supports
    "mix_uniform_uniform": ["uniform01", "uniform"],
    "mix_triangle_same_peak": ["triangle_mid", "triangle_mid_narrow"],
}
DISTS_EXTRA = {"normal_far": (("Normal", 3.0, 0.5), -INF, INF), "triangle_mid_narrow": (("Triangle", 1.0), 0.5, 2.0)}


def _spec(name, d):
    """per-dimension list of (distribution, a, b)"""
    if name in MIXED:
        return [dict(DISTS, **DISTS_EXTRA)[n] for n in MIXED[name]][:d]
    return [DISTS[name]] * d


def _ref_cdf(distr, a, b):
    """the DECLARED distribution, built independently of the library's per-dimension objects"""
    import scipy.stats as st
    if distr[0] == "Uniform":
        return st.uniform(loc=a, scale=b - a).cdf
    if distr[0] == "Triangle":
        return st.triang(c=(distr[1] - a) / (b - a), loc=a, scale=b - a).cdf
    return st.norm(loc=distr[1], scale=distr[2]).cdf


def _uq(name, d=1, model=None):
    from sparseSpACE.GridOperation import UncertaintyQuantification
    from sparseSpACE.Function import FunctionLinear
    spec = _spec(name, d)
    f = model if model is not None else FunctionLinear([1.0] * d)
    A, B = np.array([x[1] for x in spec], dtype=float), np.array([x[2] for x in spec], dtype=float)
    op = UncertaintyQuantification(f, [x[0] for x in spec], A, B)
    return op, A, B


def _tree_case(c):
    from sparseSpACE.Grid import GlobalTrapezoidalGridWeighted, GlobalTrapezoidalGrid
    name, bd = c["dist"], c["boundary"]
    dim = c.get("dim", 0)                      # the dimension whose trees are enumerated (mixed configurations are 2-dimensional)
    nd = 2 if name in MIXED else 1
    op, A, B = _uq(name, nd)
    a, b = float(A[dim]), float(B[dim])
    key = {"dist": name.split("_")[0], "boundary": bd}
    if name in MIXED:
        key["mixed"] = True
    g = GlobalTrapezoidalGridWeighted(A, B, op, boundary=bd)
    spec = _spec(name, nd)

    class D:                                   # reference: the declared distribution of this dimension (scipy), not the library's object
        cdf = staticmethod(_ref_cdf(*spec[dim]))
    # the library's own distribution object of this dimension must be the declared one
    fails = []
    for x in ([a, b] if np.isfinite(a) else []) + [spec[dim][0][1] if len(spec[dim][0]) > 1 else 0.5 * (a + b), 0.3, 1.7]:
        if np.isfinite(x) and not (abs(float(op.distributions[dim].cdf(x)) - float(D.cdf(x))) <= 1e-12):
            fails.append(fail("distribution_is_the_declared_one", "dimension %d: cdf(%r) = %r, declared %r gives %r" % (dim, x, float(op.distributions[dim].cdf(x)), spec[dim][0], float(D.cdf(x))), key))
            break
    mid = lambda lo, hi: g.get_mid_point(lo, hi, dim)
    other = [[float(A[1 - dim]), float(B[1 - dim])], [0, 0]] if nd == 2 else None

    def set_grid(pts, lv):
        if nd == 1:
            g.set_grid([pts], [lv])
        else:
            po = other[0]                       # the other dimension carries its end points and one (weighted) midpoint
            P, L = [po[0], g.get_mid_point(po[0], po[1], 1 - dim), po[1]], [0, 1, 0]
            args = ([pts, P], [lv, L]) if dim == 0 else ([P, pts], [L, lv])
            g.set_grid(*args)
    if c["shape"][0] == "depth":
        T = trees.all_trees_depth(c["shape"][1], a, b, mid)
    else:   # chains towards a tail
        T = []
        pts, lv = [a, b], [0, 0]
        side = c["shape"][1]
        lo, hi = a, b
        for level in range(1, c["shape"][2] + 1):
            m = mid(lo, hi)
            if side == "left":
                pts.insert(1, m)
                lv.insert(1, level)
                hi = m
            else:
                pts.insert(len(pts) - 1, m)
                lv.insert(len(lv) - 1, level)
                lo = m
            T.append((list(pts), list(lv)))
    nchecked = 0
    worst_sum = 0.0
    for pts, lv in T:
        if not bd and len(pts) < 3:
            continue
        nchecked += 1
        # every interval of the tree: its midpoint halves the probability and lies strictly inside
        for x1, x2 in zip(pts[:-1], pts[1:]):
            mass = float(D.cdf(x2) - D.cdf(x1))
            if mass < 2.0 ** -10:
                continue
            m = mid(x1, x2)
            if not (x1 < m < x2):
                fails.append(fail("midpoint_inside", "interval [%r,%r]: midpoint %r" % (x1, x2, m), key))
                break
            l, r = float(D.cdf(m) - D.cdf(x1)), float(D.cdf(x2) - D.cdf(m))
            # (the coordinates themselves are only known to eps*|x|: on supports far from the origin that is a mass of eps*|x|*pdf)
            if not (abs(l - r) <= 1e-10 + 1e-15 * max(abs(x1), abs(x2)) * 2.0 / min(x2 - x1 if np.isfinite(x2 - x1) else 1.0, 1.0) / max(mass, 1e-3)):
                fails.append(fail("midpoint_halves_probability", "interval [%r,%r]: mid %r, left mass %r right mass %r" % (x1, x2, m, l, r), key))
                break
        try:
            set_grid(pts, lv)
        except AssertionError as e:
            if "negative weight" not in str(e):
                raise
            fails.append(fail("weights_refused", "points %r: AssertionError: %s" % (pts, e), dict(key, far_support=bool(abs(a) > 1e5))))
            break
        w = np.array(g.weights[dim], dtype=float)
        if np.any(w < 0):
            fails.append(fail("weights_nonnegative", "points %r: %r" % (pts, w.tolist()), key))
        s = float(np.sum(w))
        worst_sum = max(worst_sum, abs(s - 1))
        tol = 1e-12 if not bd else 1e-8
        if not (abs(s - 1.0) <= tol):
            fails.append(fail("weights_sum_to_one", "points %r: sum %r" % (pts, s), key))
        if name.startswith("uniform") and bd:
            gt = GlobalTrapezoidalGrid(np.array([a]), np.array([b]), boundary=True)
            gt.set_grid([pts], [lv])
            wu = np.array(gt.weights[0], dtype=float) / (b - a)
            if not (np.max(np.abs(wu - w)) <= 1e-9):
                fails.append(fail("uniform_equals_unweighted", "points %r: weighted %r, unweighted/(b-a) %r" % (pts, w.tolist(), wu.tolist()), key))
        if len(fails) > 3:
            break
    return fails, (nchecked, round(worst_sum, 12))


# ------------------------------------------------------------------ (b) moments on refined grids
def _base(x):
    return math.exp(-float(x[0]) ** 2 + 0.3 * float(x[-1])) + float(x[-1])


def _moment_case(case):
    from sparseSpACE.GridOperation import UncertaintyQuantification
    from sparseSpACE.Grid import GlobalTrapezoidalGridWeighted
    from sparseSpACE.Function import CustomFunction
    from sparseSpACE.ErrorCalculator import ErrorCalculatorSingleDimVolumeGuided
    c, history = case["config"], case["history"]
    name, bd, d = c["dist"], c["boundary"], c["d"]
    spec = _spec(name, d)
    maps = [(2.0, 0.0), (-3.0, 1.0), (0.5, -7.0)]
    key = {"dist": name.split("_")[0], "boundary": bd}

    def comps(x):
        v = _base(x)
        return [v] + [cc * v + ee for cc, ee in maps] + [4.2]
    model = CustomFunction(comps, output_length=5)
    A, B = np.array([x[1] for x in spec], dtype=float), np.array([x[2] for x in spec], dtype=float)
    op = UncertaintyQuantification(model, [x[0] for x in spec], A, B)
    grid = GlobalTrapezoidalGridWeighted(A, B, op, boundary=bd)
    op.set_grid(grid)
    op.set_expectation_variance_Function()
    cfg = dict(c, a=[float(x) for x in A], b=[float(x) for x in B], lmin=1, lmax=2, version=6)
    if c.get("estimator") == "real":
        r = dw.build(cfg, [], None, None, estimator=ErrorCalculatorSingleDimVolumeGuided(), grid=grid, operation=op, perform=False,
                     sa_kwargs={"norm": 2, "grid_surplusses": grid})
        r.sa.performSpatiallyAdaptiv(1, 2, r.eo, tol=0.0, max_evaluations=c["max_evaluations"], print_output=False)
    else:
        r = dw.build(cfg, history, None, None, grid=grid, operation=op, sa_kwargs={"norm": 2, "grid_surplusses": grid})
    sa = r.sa
    E, V = op.calculate_expectation_and_variance(sa)
    E, V = np.array(E, dtype=float), np.array(V, dtype=float)
    fails = []
    # asking again on the same, unchanged grid must give the same answer (the laws are then checked on the LAST answer)
    for rep in range(2):
        E2, V2 = op.calculate_expectation_and_variance(sa)
        E2, V2 = np.array(E2, dtype=float), np.array(V2, dtype=float)
        if not (np.array_equal(E, E2) and np.array_equal(V, V2)):
            fails.append(fail("repeated_query_changes_result", "query %d on the same grid: E %r -> %r, Var %r -> %r" % (rep + 2, E.tolist(), E2.tolist(), V.tolist(), V2.tolist()), key))
            break
    E, V = E2, V2
    # a finite box around a normal distribution carries slightly less than mass 1 (the library does not truncate): the laws hold
    # up to that deficit (2e-9 for mu+-6sigma); it is 0 for the bounded distributions and for infinite support
    mass = 1.0
    for k in range(d):
        cdf = _ref_cdf(*spec[k])
        mass *= float(cdf(B[k]) - cdf(A[k]))
        # the per-dimension distribution objects of the operation are the declared ones
        for x in (0.3, 1.7):
            if not (abs(float(op.distributions[k].cdf(x)) - float(cdf(x))) <= 1e-12):
                fails.append(fail("distribution_is_the_declared_one", "dimension %d: cdf(%r) = %r, declared %r gives %r" % (k, x, float(op.distributions[k].cdf(x)), spec[k][0], float(cdf(x))), key))
    deficit = abs(1.0 - mass)
    rt = 1e-11 + 4 * deficit
    for i, (cc, ee) in enumerate(maps):
        sc = max(1.0, abs(E[0]) * abs(cc) + abs(ee))
        if not (abs(E[1 + i] - (cc * E[0] + ee)) <= rt * sc):
            fails.append(fail("expectation_affine", "E[%r f + %r] = %r, c E[f] + e = %r" % (cc, ee, E[1 + i], cc * E[0] + ee), key))
        scv = max(1.0, cc * cc * (abs(V[0]) + E[0] ** 2) + ee * ee + 2 * abs(cc * ee * E[0]))
        if not (abs(V[1 + i] - cc * cc * V[0]) <= (1e-10 + 40 * deficit) * scv):
            fails.append(fail("variance_affine", "Var[%r f + %r] = %r, c^2 Var[f] = %r" % (cc, ee, V[1 + i], cc * cc * V[0]), key))
    if np.any(V < 0):
        fails.append(fail("variance_nonnegative", "variances %r" % (V.tolist(),), key))
    if not (abs(E[4] - 4.2) <= rt * 4.2) or not (abs(V[4]) <= 1e-10 + 40 * deficit):
        fails.append(fail("constant_model", "constant 4.2: expectation %r variance %r" % (E[4], V[4]), key))
    out = {"failures": fails, "canon": dw.canon(sa), "nontrivial": len(history) > 0 or c.get("estimator") == "real",
           "outcome": (round(float(E[0]), 10), round(float(V[0]), 10))}
    if case.get("want_events", False):
        out["events"] = dw.events_for(sa, c)
    return out


def _declared_case(c):
    """a LIST of per-dimension distributions (every list over a small menu, d = 3..5): the operation's distribution object and the
    weighted grid's midpoint of EVERY dimension must be those of the distribution declared for that dimension"""
    from sparseSpACE.GridOperation import UncertaintyQuantification
    from sparseSpACE.Grid import GlobalTrapezoidalGridWeighted
    from sparseSpACE.Function import FunctionLinear
    allspec = dict(DISTS, **DISTS_EXTRA)
    spec = [allspec[n] for n in c["names"]]
    d = len(spec)
    A, B = np.array([x[1] for x in spec], dtype=float), np.array([x[2] for x in spec], dtype=float)
    op = UncertaintyQuantification(FunctionLinear([1.0] * d), [x[0] for x in spec], A, B)
    g = GlobalTrapezoidalGridWeighted(A, B, op, boundary=False)
    key = {"dist": "list", "boundary": False, "mixed": True}
    fails = []
    for k in range(d):
        cdf = _ref_cdf(*spec[k])
        lo = A[k] if np.isfinite(A[k]) else spec[k][0][1] - 3.0
        hi = B[k] if np.isfinite(B[k]) else spec[k][0][1] + 3.0
        for x in (lo + 0.3 * (hi - lo), lo + 0.7 * (hi - lo)):
            if not (abs(float(op.distributions[k].cdf(x)) - float(cdf(x))) <= 1e-12):
                fails.append(fail("distribution_is_the_declared_one", "list %r, dimension %d: cdf(%r) = %r, declared %r gives %r"
                                  % (c["names"], k, x, float(op.distributions[k].cdf(x)), spec[k][0], float(cdf(x))), key))
                return fails, (d,)
        m = float(g.get_mid_point(A[k], B[k], k))
        l, r = float(cdf(m) - cdf(A[k])), float(cdf(B[k]) - cdf(m))
        if not (A[k] < m < B[k]) or not (abs(l - r) <= 1e-9):
            fails.append(fail("midpoint_halves_probability", "list %r, dimension %d: midpoint %r of the support splits the declared distribution %r | %r" % (c["names"], k, m, l, r), key))
            return fails, (d,)
    return fails, (d,)


def run_case(case):
    c = case["config"]
    if c["kind"] == "declared":
        fails, out = _declared_case(c)
        return {"failures": fails, "canon": core.config_key(c), "outcome": out, "nontrivial": True, "evals": out[0]}
    if c["kind"] == "tree":
        fails, out = _tree_case(c)
        return {"failures": fails, "canon": core.config_key(c), "outcome": out, "nontrivial": out[0] > 0, "evals": max(1, out[0])}
    return _moment_case(case)


def main(ctx):
    q = ctx.tier == "quick"
    cases = []
    for name in DISTS:
        for bd in (True, False):
            if name in ("normal_inf", "normal_far_mean") and bd:
                continue     # boundary points at +-infinity are not grid points
            if name == "normal_cut" and bd:
                continue     # with boundary points the rule integrates the untruncated density over the box (mass 0.975, by design)
            cases.append({"config": {"kind": "tree", "dist": name, "boundary": bd, "shape": ["depth", 3 if q else 4]}})
            for side in ("left", "right"):
                cases.append({"config": {"kind": "tree", "dist": name, "boundary": bd, "shape": ["chain", side, 6 if q else 9]}})
    for name in MIXED:
        for bd in (True, False):
            if bd and any(not np.isfinite(_spec(name, 2)[k][1]) for k in range(2)):
                continue
            for dim in (0, 1):
                cases.append({"config": {"kind": "tree", "dist": name, "boundary": bd, "dim": dim, "shape": ["depth", 3]}})
                cases.append({"config": {"kind": "tree", "dist": name, "boundary": bd, "dim": dim, "shape": ["chain", "right", 5]}})
    # lists of per-dimension distributions: every list over a menu of four for d = 3, 4 (thorough: 5)
    import itertools
    menu = ["uniform01", "triangle_mid", "normal_inf", "uniform"]
    for d in (3, 4) if q else (3, 4, 5):
        for names in itertools.product(menu[:3] if d == 5 else menu, repeat=d):
            cases.append({"config": {"kind": "declared", "names": list(names), "dist": "list", "boundary": False}})
    ctx.determinism_probe(cases[0])
    for case, res in zip(cases, ctx.map(cases, chunksize=1)):
        ctx.absorb(case, res, group="trees_" + case["config"]["dist"])
    ctx.add_sample(cases[0])
    ctx.bounds["tree_cases"] = len(cases)
    # (b)
    for name, bd, d, D, s in (("uniform", True, 2, 2, 1 if q else 2), ("triangle_mid", True, 2, 2, 1), ("normal_inf", False, 2, 2, 1),
                              ("uniform", False, 2, 2, 1), ("triangle_left", False, 1, 3, 2), ("normal_box", True, 1, 3, 2),
                              ("triangle_right", True, 2, 1 if q else 2, 1),
                              ("mix_normal_normal", False, 2, 2, 1), ("mix_normal_triangle", True, 2, 1 if q else 2, 1),
                              ("mix_uniform_normal", False, 2, 1 if q else 2, 1), ("mix_triangle_triangle", True, 2, 1 if q else 2, 1),
                              ("mix_uniform_uniform", True, 2, 1 if q else 2, 1), ("mix_triangle_same_peak", False, 2, 1, 1)):
        cfg = {"kind": "moments", "dist": name, "boundary": bd, "d": d, "s": s, "rebalancing": True}
        tag = "moments_%s_bd%d_d%d_D%d_s%d" % (name, bd, d, D, s)
        ctx.bounds[tag] = core.bfs(ctx, cfg, D, tag=tag)
    # graded refinement towards a point (deep, strongly non-uniform weighted trees)
    for name, bd, tgt in (("uniform", True, [[0.2, 2.2]]), ("triangle_mid", False, [[0.2, 2.2]]), ("normal_inf", False, [[0.7, -0.4]])):
        D = 4 if q else 6
        cfg = {"kind": "moments", "dist": name, "boundary": bd, "d": 2, "s": 1, "rebalancing": True, "towards": tgt}
        tag = "moments_graded_%s_bd%d_D%d" % (name, bd, D)
        ctx.bounds[tag] = core.bfs(ctx, cfg, D, tag=tag)
    real = [{"config": {"kind": "moments", "dist": name, "boundary": bd, "d": 2, "estimator": "real", "max_evaluations": mx, "rebalancing": True},
             "history": []}
            for (name, bd) in (("uniform", True), ("triangle_mid", True), ("normal_inf", False), ("uniform", False), ("normal_box", True),
                               ("mix_normal_normal", False), ("mix_normal_triangle", True))
            for mx in ((40, 120) if q else (40, 120, 300))]
    for case, res in zip(real, ctx.map(real, chunksize=1)):
        ctx.absorb(case, res, state_key=("real", core.config_key(case["config"])), group="moments_default_estimator")
    ctx.add_sample(real[0])
    return ctx.finish(
        rule="(a) one case = distribution x boundary flag x tree family (all trees with leaves at depth<=m built with the weighted "
             "midpoint, or a chain of splits towards one tail), every tree decided; (b) BFS over refinement-decision histories of the "
             "dimension-wise strategy on the weighted grid plus complete runs with the library's own estimator; the affine images "
             "and a constant are components of one vector-valued model, so all share the grid",
        assumptions=["distributions usable in the pinned environment: Uniform, Triangle, Normal (infinite support or mu+-6sigma box)",
                     "midpoint law checked for intervals of probability >= 2^-10 (float cdf still informative)",
                     "weights sum: 1e-8 with boundary points (quad-based moments), 1e-12 without (renormalised)",
                     "uniform == unweighted/(b-a) demanded with boundary points (without them the weighted rule renormalises)"])
