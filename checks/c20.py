"""C20 - regression solves the regularised least-squares problem on every component grid.

Exhaustive lattice: dimension x data set x targets x lambda x matrix choice x level range x standard /
dimension-wise training, all with DEFAULT construction arguments.  Per component grid (oracles kept independent so
that one defect does not cascade): (i) the returned surpluses satisfy the normal equations with A recomputed
independently and M the identity or the implementation's own smoothing matrix; (ii) the smoothing matrices equal the
exact gradient Gram matrix (symmetric, PSD) on every level vector and on tensor grids of refinement trees;
(iii) the design matrices hold the hat values at the training points; (iv) every coefficient optimisation variant
returns coefficients summing to one.
"""
import itertools

import numpy as np

from mc import core, trees
from mc.core import fail
from checks.c16 import gram1d, _kron, _hats_at

PID = "C20"


def stiff1d(pts):
    n = len(pts) - 2
    K = np.zeros((n, n))
    for i in range(1, n + 1):
        hl, hr = pts[i] - pts[i - 1], pts[i + 1] - pts[i]
        K[i - 1, i - 1] = 1 / hl + 1 / hr
        if i < n:
            K[i - 1, i] = K[i, i - 1] = -1 / hr
    return K


def gradient_gram(coords):
    d = len(coords)
    tot = None
    for k in range(d):
        mats = [stiff1d(coords[m]) if m == k else gram1d(coords[m]) for m in range(d)]
        t = _kron(mats)
        tot = t if tot is None else tot + t
    return tot


DATA = {
    1: [np.array([[0.1], [0.3], [0.5], [0.77], [0.9], [0.2], [0.6], [0.85], [0.4], [0.05], [0.95], [0.7]])],
    2: [np.array([[x, y] for x, y in [(0.1, 0.3), (0.3, 0.9), (0.5, 0.5), (0.77, 0.1), (0.9, 0.77), (0.2, 0.6), (0.6, 0.2), (0.85, 0.4),
                                      (0.4, 0.85), (0.05, 0.05), (0.95, 0.95), (0.7, 0.7), (0.33, 0.15), (0.15, 0.66)]])],
}
DATA[3] = [np.array([[x, y, z] for x, y, z in [(0.1, 0.3, 0.7), (0.3, 0.9, 0.2), (0.5, 0.5, 0.5), (0.77, 0.1, 0.9), (0.9, 0.77, 0.3), (0.2, 0.6, 0.1),
                                             (0.6, 0.2, 0.8), (0.85, 0.4, 0.6), (0.4, 0.85, 0.45), (0.05, 0.05, 0.95), (0.95, 0.95, 0.05),
                                             (0.7, 0.7, 0.7), (0.33, 0.15, 0.55), (0.15, 0.66, 0.35)]])]
TARGETS = {"smooth": lambda X: np.sin(3 * X[:, 0]) + (X[:, -1] ** 2),
           # targets are arbitrary reals: also below -1 (the value that marks "no label" in classification data sets) and large
           "negative_large": lambda X: 40.0 * np.sin(3 * X[:, 0]) - 25.0 - 60.0 * (X[:, -1] ** 2), "rough": lambda X: np.where(X[:, 0] > 0.5, 1.0, -0.5) + 0.1 * X[:, -1]}


def _regression(c):
    from sparseSpACE.GridOperation import Regression
    X = DATA[c["d"]][0]
    y = TARGETS[c["targets"]](X)
    return Regression(X.copy(), y.copy(), c["lambda"], c["matrix"], print_level=1000, log_level=1000)


def _normal_equation_failures(op, coords, alphas, lam, matrix, M_impl, key, what):
    fails = []
    Xt, yt = np.asarray(op.training_data, dtype=float), np.asarray(op.training_target_values, dtype=float)
    A = np.array([_hats_at(coords, x) for x in Xt])
    al = np.asarray(alphas, dtype=float).ravel()
    m = len(yt)
    if A.shape[1] != len(al):
        return [fail("surplus_count", "%s: %d surpluses for %d basis functions" % (what, len(al), A.shape[1]), key)]
    if lam == 0:
        res = A.T @ (A @ al - yt)
        scale = max(1.0, float(np.max(np.abs(A.T @ yt))))
    else:
        M = np.eye(len(al)) if matrix == "I" else np.asarray(M_impl, dtype=float)
        res = (A.T @ A / m + lam * M) @ al - A.T @ yt / m
        scale = max(1.0, float(np.max(np.abs(A.T @ yt / m))), float(np.max(np.abs(al))))
    if not (float(np.max(np.abs(res))) <= 1e-9 * scale):
        fails.append(fail("normal_equations", "%s: residual of the normal equations %r (lambda %r, matrix %s)" % (what, float(np.max(np.abs(res))), lam, matrix), key))
    return fails


def _train_case(c):
    key = {"training": "standard", "matrix": c["matrix"], "regularised": c["lambda"] != 0}
    fails = []
    op = _regression(c)
    combi = op.train(0.2, c["lmin"], c["lmax"])
    n = 0
    for comp in combi.scheme:
        lv = [int(x) for x in comp.levelvector]
        coords = [[i / 2 ** l for i in range(2 ** l + 1)] for l in lv]
        op.grid.numPoints = 2 ** np.array(lv) - 1
        # (iii) design matrix
        A_impl = np.asarray(op.build_A_matrix(lv), dtype=float)
        A_ref = np.array([_hats_at(coords, x) for x in np.asarray(op.training_data, dtype=float)])
        if A_impl.shape != A_ref.shape or not np.allclose(A_impl, A_ref, rtol=1e-13, atol=1e-15):
            fails.append(fail("design_matrix", "level %r: build_A_matrix differs from the hat values at the training points" % (lv,), key))
        M_impl = op.build_C_matrix(lv) if c["matrix"] == "C" else None
        fails += _normal_equation_failures(op, coords, op.surpluses[tuple(comp.levelvector)], c["lambda"], c["matrix"], M_impl, key, "level %r" % (lv,))
        n += 1
    # the combined prediction is the coefficient-weighted sum of the component interpolants
    lat = list(itertools.product([0.1, 0.33, 0.5, 0.8], repeat=c["d"]))
    got = np.asarray(combi(lat)).ravel()
    want = np.zeros(len(lat))
    for comp in combi.scheme:
        lv = [int(x) for x in comp.levelvector]
        coords = [[i / 2 ** l for i in range(2 ** l + 1)] for l in lv]
        al = np.asarray(op.surpluses[tuple(comp.levelvector)], dtype=float).ravel()
        want += comp.coefficient * np.array([float(np.dot(al, _hats_at(coords, p))) for p in lat])
    if not np.allclose(got, want, rtol=1e-9, atol=1e-10 * max(1.0, float(np.max(np.abs(want))))):
        fails.append(fail("combined_prediction", "combi(points) %r, sum of component interpolants %r" % (got[:4].tolist(), want[:4].tolist()), key))
    return fails, n


def _large_case(c):
    """natural-size training set (tens of thousands of samples, design matrices with millions of entries): the design matrix holds the
    basis values at ALL training points and the surpluses solve the normal equations; reference evaluated with vectorised tensor hats"""
    from sparseSpACE.GridOperation import Regression
    key = {"training": "standard_large_data", "matrix": c["matrix"], "regularised": c["lambda"] != 0}
    m = c["samples"]
    i = np.arange(1, m + 1, dtype=float)
    X = np.stack([(i * 0.6180339887498949) % 1.0, (i * 0.7548776662466927) % 1.0], axis=1)      # deterministic low-discrepancy points
    y = TARGETS[c["targets"]](X)
    op = Regression(X.copy(), y.copy(), c["lambda"], c["matrix"], print_level=1000, log_level=1000)
    combi = op.train(0.2, c["lmin"], c["lmax"])
    Xt, yt = np.asarray(op.training_data, dtype=float), np.asarray(op.training_target_values, dtype=float)
    fails, n = [], 0
    for comp in combi.scheme:
        lv = [int(x) for x in comp.levelvector]
        H = [np.maximum(0.0, 1.0 - np.abs(Xt[:, k, None] * 2 ** l - np.arange(1, 2 ** l)[None, :])) for k, l in enumerate(lv)]
        A = (H[0][:, :, None] * H[1][:, None, :]).reshape(len(Xt), -1)
        op.grid.numPoints = 2 ** np.array(lv) - 1
        A_impl = np.asarray(op.build_A_matrix(lv), dtype=float)
        if A_impl.shape != A.shape or not np.allclose(A_impl, A, rtol=1e-12, atol=1e-14):
            bad = int(np.sum(np.any(np.abs(A_impl - A) > 1e-12, axis=1))) if A_impl.shape == A.shape else -1
            fails.append(fail("design_matrix", "level %r, %d training points: build_A_matrix differs from the hat values in %d rows" % (lv, len(Xt), bad), key))
        al = np.asarray(op.surpluses[tuple(comp.levelvector)], dtype=float).ravel()
        mm = len(yt)
        if c["lambda"] == 0:
            res, scale = A.T @ (A @ al - yt), max(1.0, float(np.max(np.abs(A.T @ yt))))
        else:
            res = (A.T @ A / mm + c["lambda"] * np.eye(len(al))) @ al - A.T @ yt / mm
            scale = max(1.0, float(np.max(np.abs(A.T @ yt / mm))), float(np.max(np.abs(al))))
        if not (float(np.max(np.abs(res))) <= 1e-8 * scale):
            fails.append(fail("normal_equations", "level %r, %d training points: residual %r" % (lv, len(Xt), float(np.max(np.abs(res)))), key))
        n += 1
    return fails, n


def _retrain_case(c):
    """ONE Regression object is trained twice (different split and level range): the surpluses reported after the second training must
    satisfy the normal equations of the SECOND problem on every component grid"""
    key = {"training": "standard_retrained", "matrix": c["matrix"], "regularised": c["lambda"] != 0}
    fails = []
    op = _regression(c)
    n = 0
    for (pct, lmin, lmax) in c["trainings"]:
        combi = op.train(pct, lmin, lmax)
        for comp in combi.scheme:
            lv = [int(x) for x in comp.levelvector]
            coords = [[i / 2 ** l for i in range(2 ** l + 1)] for l in lv]
            op.grid.numPoints = 2 ** np.array(lv) - 1
            M_impl = op.build_C_matrix(lv) if c["matrix"] == "C" else None
            fails += _normal_equation_failures(op, coords, op.surpluses[tuple(comp.levelvector)], c["lambda"], c["matrix"], M_impl, key,
                                               "training %r, level %r" % ((pct, lmin, lmax), lv))
            n += 1
        if fails:
            break
    return fails, n


def _two_models_case(c):
    """TWO Regression objects live in one process (a parameter study): model 1 is trained, then model 2 is constructed and trained on
    other targets / lambda / matrix over an overlapping level range; afterwards BOTH must satisfy the normal equations of their OWN
    problem on every component grid, and the predictions of model 1 must be what they were before model 2 existed"""
    key = {"training": "two_models", "matrix": c["models"][0]["matrix"], "regularised": c["models"][0]["lambda"] != 0}
    fails, n = [], 0
    lat = list(itertools.product([0.1, 0.33, 0.5, 0.8], repeat=c["d"]))
    ops, combis, preds = [], [], []
    for m in c["models"]:
        cc = dict(c, **m)
        op = _regression(cc)
        combi = op.train_spatially_adaptive(0.2, 0.9, 1e-12, 12) if m.get("adaptive") else op.train(0.2, m["lmin"], m["lmax"])
        ops.append(op)
        combis.append(combi)
        preds.append(np.asarray(combi(lat), dtype=float).ravel().copy())
    for i, (m, op, combi) in enumerate(zip(c["models"], ops, combis)):
        if m.get("adaptive"):
            continue
        for comp in combi.scheme:
            lv = [int(x) for x in comp.levelvector]
            coords = [[j / 2 ** l for j in range(2 ** l + 1)] for l in lv]
            op.grid.numPoints = 2 ** np.array(lv) - 1
            M_impl = op.build_C_matrix(lv) if m["matrix"] == "C" else None
            fails += _normal_equation_failures(op, coords, op.surpluses[tuple(comp.levelvector)], m["lambda"], m["matrix"], M_impl, key,
                                               "model %d of %d (after all were trained), level %r" % (i + 1, len(ops), lv))
            n += 1
        again = np.asarray(combi(lat), dtype=float).ravel()
        if not np.allclose(again, preds[i], rtol=1e-12, atol=1e-13):
            fails.append(fail("prediction_changed_by_other_model", "model %d: predictions %r right after its training, %r after the other model was trained"
                              % (i + 1, preds[i][:3].tolist(), again[:3].tolist()), key))
        if fails:
            break
    return fails, n


def _opticom_case(c):
    key = {"training": "standard", "option": c["option"], "regularised": c["lambda"] != 0}
    op = _regression(c)
    combi = op.train(0.2, c["lmin"], c["lmax"])
    before = [float(x.coefficient) for x in combi.scheme]
    op.optimize_coefficients(combi, c["option"])
    coeffs = [float(np.asarray(x.coefficient).ravel()[0]) for x in combi.scheme]
    fails = []
    if not np.all(np.isfinite(coeffs)) or abs(sum(coeffs) - 1.0) > 1e-10:
        fails.append(fail("opticom_coefficients_sum_to_one", "option %d: coefficients %r sum to %r (before %r)" % (c["option"], coeffs, sum(coeffs), before), key))
    return fails, 1


def _adaptive_case(c):
    key = {"training": "dimension-wise", "matrix": c["matrix"], "regularised": c["lambda"] != 0}
    fails = []
    op = _regression(c)
    sa = op.train_spatially_adaptive(0.2, c["margin"], 1e-12, c["max_evaluations"])
    n = 0
    for comp in sa.scheme:
        pc, pl, _ = sa.get_point_coord_for_each_dim(comp.levelvector)
        coords = [[float(x) for x in p] for p in pc]
        A_impl = np.asarray(op.build_A_matrix_dimension_wise(pc, pl), dtype=float)
        A_ref = np.array([_hats_at(coords, x) for x in np.asarray(op.training_data, dtype=float)])
        if A_impl.shape != A_ref.shape or not np.allclose(A_impl, A_ref, rtol=1e-13, atol=1e-15):
            fails.append(fail("design_matrix", "component %r: build_A_matrix_dimension_wise differs from the hat values" % (tuple(comp.levelvector),), key))
        M_impl = op.build_C_matrix_dimension_wise(pc, pl) if c["matrix"] == "C" else None
        fails += _normal_equation_failures(op, coords, op.surpluses[tuple(comp.levelvector)], c["lambda"], c["matrix"], M_impl, key,
                                           "component %r points %r" % (tuple(int(x) for x in comp.levelvector), [len(p) for p in coords]))
        n += 1
    if c.get("option"):
        op.optimize_coefficients_spatially_adaptive(sa, c["option"])
        coeffs = [float(np.asarray(x.coefficient).ravel()[0]) for x in sa.scheme]
        if not np.all(np.isfinite(coeffs)) or abs(sum(coeffs) - 1.0) > 1e-10:
            fails.append(fail("opticom_coefficients_sum_to_one", "option %d (adaptive): coefficients %r sum to %r" % (c["option"], coeffs, sum(coeffs)),
                              {"training": "dimension-wise", "option": c["option"], "regularised": c["lambda"] != 0}))
    return fails, n


def _cmatrix_uniform_case(c):
    from sparseSpACE.GridOperation import Regression
    lv = c["level"]
    d = len(lv)
    iso = len(set(lv)) == 1
    key = {"matrix": "C_uniform", "anisotropic": not iso}
    X = DATA[d][0] if d in DATA else np.random.RandomState(1).rand(6, d)
    op = Regression(X.copy(), np.arange(len(X), dtype=float), 0.1, "C", print_level=1000, log_level=1000)
    op.grid.numPoints = 2 ** np.array(lv) - 1
    C = np.asarray(op.build_C_matrix(lv), dtype=float)
    coords = [[i / 2 ** l for i in range(2 ** l + 1)] for l in lv]
    G = gradient_gram(coords)
    fails = []
    if not np.array_equal(C, C.T):
        fails.append(fail("smoothing_matrix_symmetric", "level %r" % (lv,), key))
    if np.min(np.linalg.eigvalsh((C + C.T) / 2)) < -1e-10 * max(1.0, float(np.max(np.abs(C)))):
        fails.append(fail("smoothing_matrix_psd", "level %r: smallest eigenvalue %r" % (lv, float(np.min(np.linalg.eigvalsh((C + C.T) / 2)))), key))
    if C.shape != G.shape or not np.allclose(C, G, rtol=1e-12, atol=1e-13):
        i, j = np.unravel_index(int(np.argmax(np.abs(C - G))), C.shape) if C.shape == G.shape else (0, 0)
        fails.append(fail("smoothing_matrix_equals_gradient_gram", "level %r: C[%d,%d]=%r, exact %r" % (lv, i, j, C[i, j] if C.shape == G.shape else C.shape, G[i, j]), key))
    return fails, 1


def _cmatrix_tree_case(c):
    from sparseSpACE.GridOperation import Regression
    from sparseSpACE.Grid import GlobalTrapezoidalGrid
    ts = c["trees"]
    d = len(ts)
    coords = [list(t[0]) for t in ts]
    lvs = [list(t[1]) for t in ts]
    X = DATA[d][0]
    op = Regression(X.copy(), np.arange(len(X), dtype=float), 0.1, "C", print_level=1000, log_level=1000)
    op.grid = GlobalTrapezoidalGrid(a=np.zeros(d), b=np.ones(d), modified_basis=False, boundary=False)
    op.dimension_wise = True
    C = np.asarray(op.build_C_matrix_dimension_wise(coords, lvs), dtype=float)
    G = gradient_gram(coords)
    fails = []
    n = G.shape[0]
    # classify the differing entries so that the known defects have narrow keys
    def entry_kind(i, j):
        idx = list(itertools.product(*[range(1, len(p) - 1) for p in coords]))
        a, b = idx[i], idx[j]
        if any(abs(x - y) > 1 for x, y in zip(a, b)):
            return "non_adjacent"
        return "adjacent"
    if not np.array_equal(C, C.T):
        fails.append(fail("smoothing_matrix_symmetric", "points %r" % (coords,), {"matrix": "C_dimension_wise", "d": d}))
    if C.shape != G.shape:
        fails.append(fail("smoothing_matrix_equals_gradient_gram", "shape %r vs %r" % (C.shape, G.shape), {"matrix": "C_dimension_wise", "d": d, "entries": "shape"}))
        return fails, 1
    bad = np.argwhere(np.abs(C - G) > 1e-12 * np.maximum(1.0, np.abs(G)))
    kinds = {}
    for i, j in bad:
        kinds.setdefault(entry_kind(int(i), int(j)), (int(i), int(j)))
    for kind, (i, j) in sorted(kinds.items()):
        fails.append(fail("smoothing_matrix_equals_gradient_gram", "points %r: C[%d,%d]=%r, exact %r" % (coords, i, j, C[i, j], G[i, j]),
                          {"matrix": "C_dimension_wise", "multi_dimensional": d >= 2, "entries": kind}))
    ev = np.linalg.eigvalsh((C + C.T) / 2)
    if np.min(ev) < -1e-10 * max(1.0, float(np.max(np.abs(C)))) and not len(bad):
        fails.append(fail("smoothing_matrix_psd", "points %r: smallest eigenvalue %r" % (coords, float(np.min(ev))), {"matrix": "C_dimension_wise", "d": d}))
    return fails, 1


def run_case(case):
    c = case["config"]
    fn = {"train": _train_case, "retrain": _retrain_case, "opticom": _opticom_case, "two_models": _two_models_case, "large": _large_case, "adaptive": _adaptive_case, "C_uniform": _cmatrix_uniform_case,
          "C_tree": _cmatrix_tree_case}[c["kind"]]
    fails, n = fn(c)
    return {"failures": fails, "canon": core.config_key(c), "outcome": (n, len(fails)), "nontrivial": True, "evals": n}


def cases(tier):
    q = tier == "quick"
    out = []
    # natural-size data (both sides of any size-dependent chunking: 2^22 entries of a design matrix are reached from ~20 000 points on)
    for samples, lam in ((33000, 0.0), (33000, 0.01)) + (() if q else ((60000, 0.0), (9000, 0.0))):
        out.append({"config": {"kind": "large", "samples": samples, "targets": "smooth", "lambda": lam, "matrix": "I", "lmin": 1, "lmax": 6}})
    for d in (1, 2, 3):
        for targets in TARGETS:
            for lam in (0.0, 0.1, 1e-3):
                for matrix in ("C", "I"):
                    if lam == 0.0 and matrix == "I":
                        continue
                    for lmin, lmax in (((1, 1), (1, 2), (1, 3), (2, 3)) + (((1, 4), (2, 4)) if (d == 1 or not q) else ())) if d < 3 else ((1, 1), (1, 2), (2, 2)):
                        out.append({"config": {"kind": "train", "d": d, "targets": targets, "lambda": lam, "matrix": matrix, "lmin": lmin, "lmax": lmax}})
            if d > 2:
                continue              # d = 3: standard training only
            for lam, matrix in ((0.0, "C"), (0.1, "I"), (0.1, "C")):
                for trainings in ([[0.2, 1, 3], [0.4, 1, 4]], [[0.2, 1, 2], [0.2, 1, 3]], [[0.4, 2, 3], [0.2, 1, 3]], [[0.2, 1, 3], [0.2, 1, 3]]):
                    out.append({"config": {"kind": "retrain", "d": d, "targets": targets, "lambda": lam, "matrix": matrix, "trainings": trainings}})
            for option in (1, 2, 3):
                for lam in (0.0, 0.1):
                    for lmin, lmax in ((1, 2), (1, 3)):
                        out.append({"config": {"kind": "opticom", "d": d, "targets": targets, "lambda": lam, "matrix": "C", "lmin": lmin, "lmax": lmax,
                                               "option": option}})
            for lam in (0.0, 0.1):
                for matrix in ("C", "I"):
                    if lam == 0.0 and matrix == "I":
                        continue
                    for margin in (0.5, 0.9):
                        for mx in (0, 20, 40) if d == 2 else (0, 8, 16):
                            out.append({"config": {"kind": "adaptive", "d": d, "targets": targets, "lambda": lam, "matrix": matrix, "margin": margin,
                                                   "max_evaluations": mx}})
            for option in (1, 2, 3):
                out.append({"config": {"kind": "adaptive", "d": d, "targets": targets, "lambda": 0.0, "matrix": "C", "margin": 0.9,
                                       "max_evaluations": 20 if d == 2 else 8, "option": option}})
    # two models alive in one process: every ordered pair from a menu of problems over overlapping level ranges
    tn = list(TARGETS)
    menu = [{"targets": tn[0], "lambda": 0.0, "matrix": "C", "lmin": 1, "lmax": 3}, {"targets": tn[-1], "lambda": 0.1, "matrix": "I", "lmin": 1, "lmax": 3},
            {"targets": tn[0], "lambda": 0.1, "matrix": "C", "lmin": 2, "lmax": 3}, {"targets": tn[-1], "lambda": 1e-3, "matrix": "I", "lmin": 1, "lmax": 2},
            {"targets": tn[-1], "lambda": 0.1, "matrix": "C", "lmin": 1, "lmax": 2, "adaptive": True}]
    for d in (1, 2):
        for m1, m2 in itertools.permutations(menu, 2):
            out.append({"config": {"kind": "two_models", "d": d, "models": [m1, m2]}})
    for d, L in ((1, 4), (2, 3), (3, 2)):
        for lv in itertools.product(range(1, L + 1), repeat=d):
            out.append({"config": {"kind": "C_uniform", "level": list(lv)}})
    T1 = trees.all_trees_depth(3, 0.0, 1.0)
    for t in T1:
        out.append({"config": {"kind": "C_tree", "trees": [list(t)]}})
    T2 = trees.all_trees_depth(2, 0.0, 1.0) if q else trees.all_trees_depth(3, 0.0, 1.0)[:10]
    for t0 in T2:
        for t1 in T2:
            out.append({"config": {"kind": "C_tree", "trees": [list(t0), list(t1)]}})
    return out


def main(ctx):
    cs = cases(ctx.tier)
    ctx.determinism_probe(cs[5])
    results = ctx.map(cs, chunksize=1)
    for case, res in zip(cs, results):
        ctx.absorb(case, res, group=case["config"]["kind"])
    for i in (3, len(cs) // 3, len(cs) - 1):
        ctx.add_sample(cs[i])
    ctx.bounds = {k: sum(1 for c in cs if c["config"]["kind"] == k) for k in ("train", "retrain", "opticom", "adaptive", "C_uniform", "C_tree")}
    return ctx.finish(
        rule="complete lattice d x targets x lambda x matrix x level range (standard training), x margin x max_evaluations (dimension-wise "
             "training), x Opticom option; smoothing matrices on every level vector <= L and on every tree (1D) / pair of trees (2D); "
             "every component grid of every run is one obligation (evaluations)",
        assumptions=["default construction arguments (rangee, grid)", "the normal-equation oracle uses the implementation's own smoothing matrix so "
                     "that its defects (checked separately against the exact gradient Gram matrix) do not cascade",
                     "train/validation split is the library's own deterministic split (random_state=1)"])
