"""C09 - global adaptive 1D quadrature rules are exact on every refinement-tree grid.

Exhaustive enumeration of refinement trees (all trees with leaves at depth <= m, all Catalan trees with <= n inner
points; dyadic and 1/3-ratio splits; two intervals) and, in 2D, tensor products of all pairs of depth-<=3 trees.
Trapezoidal rule: weights == exact integrals of the nodal functions of the piecewise-linear interpolant (zero
boundary values / linear extrapolation), non-negative, independent of the level labelling.  High-order / Lagrange /
B-spline rules: constants and linear functions exact on EVERY tree, degree q <= order exact whenever the tree
contains a complete dyadic level with >= q+1 points.
"""
import itertools

import numpy as np

from mc import core, trees
from mc.core import fail
from mc.refmodels import hats

PID = "C09"


def _mid_third(lo, hi):
    return lo + (hi - lo) / 3.0


def _exact(k, a, b):
    return (b ** (k + 1) - a ** (k + 1)) / (k + 1)


def _exactn(k, a, b):
    """integral of ((x-a)/(b-a))^k over [a,b]"""
    return (b - a) / (k + 1)


def _hier_grid(kind, a, b):
    from sparseSpACE import Grid as G
    a, b = np.array([a]), np.array([b])
    name, arg = kind
    if name == "highorder":
        return G.GlobalHighOrderGrid(a, b, boundary=True, max_degree=arg[0], split_up=arg[1]), arg[0]
    if name == "highorder_nb":      # no boundary points; arg = (max_degree, split_up, modified_basis)
        return G.GlobalHighOrderGrid(a, b, boundary=False, max_degree=arg[0], split_up=arg[1], modified_basis=arg[2]), arg[0]
    if name == "bspline_nb_mod":    # hierarchical B-splines without boundary points, modified basis
        return G.GlobalBSplineGrid(a, b, boundary=False, modified_basis=True, p=arg), 1
    if name == "lagrange":
        return G.GlobalLagrangeGrid(a, b, boundary=True, p=arg), arg
    if name == "bspline":
        return G.GlobalBSplineGrid(a, b, boundary=True, p=arg), arg
    raise ValueError(kind)


HIER_NB = [("bspline_nb_mod", 1), ("bspline_nb_mod", 3), ("highorder_nb", (3, False, False)), ("highorder_nb", (3, False, True)), ("highorder_nb", (2, True, False)), ("highorder_nb", (2, True, True))]
HIER = [("highorder", (2, True)), ("highorder", (3, True)), ("highorder", (5, True)), ("highorder", (5, False)), ("highorder", (4, False)),
        ("lagrange", 1), ("lagrange", 2), ("lagrange", 3), ("bspline", 1), ("bspline", 3)]


def _trap_case(c):
    from sparseSpACE.Grid import GlobalTrapezoidalGrid
    pts, lv, a, b = c["points"], c["levels"], c["a"], c["b"]
    fails = []
    out = []
    for bd, mod in ((True, False), (False, False), (False, True)):
        key = {"rule": "trapezoidal", "boundary": bd, "modified": mod}
        if not bd and len(pts) < 3:
            continue
        g = GlobalTrapezoidalGrid(np.array([a]), np.array([b]), boundary=bd, modified_basis=mod)
        g.set_grid([pts], [lv])
        w = np.asarray(g.weights[0], dtype=float)
        P = [float(x) for x in g.coordinate_array[0]]
        ref = [float(x) for x in hats.trapezoid_weights(pts, boundary=bd, modified=mod)]
        want_pts = pts if bd else pts[1:-1]
        if P != [float(x) for x in want_pts]:
            fails.append(fail("grid_points", "grid points %r expected %r" % (P, want_pts), key))
        if len(w) != len(ref) or not (np.max(np.abs(w - np.array(ref))) <= 1e-13 * (b - a)):
            fails.append(fail("weights_equal_piecewise_linear_integrals", "points %r: weights %r, exact %r" % (pts, list(w), ref), key))
        if not mod and np.any(w < 0):
            fails.append(fail("weights_nonnegative", "points %r: %r" % (pts, list(w)), key))
        # with a single inner point the modified basis can only extrapolate a constant: linear exactness needs >= 2 inner points
        lin = bd or (mod and len(pts) >= 4)
        if bd or mod:
            for k in ((0, 1) if lin else (0,)):
                val = float(np.dot(w, np.array(P) ** k))
                if not (abs(val - _exact(k, a, b)) <= 1e-12 * max(1.0, abs(a), abs(b)) * (b - a)):
                    fails.append(fail("linear_exactness", "points %r: integral of x^%d is %r, exact %r" % (pts, k, val, _exact(k, a, b)), key))
        # independence of the level labelling (same point set, levels of a different valid or arbitrary labelling)
        for alt in ([0] * len(pts), list(reversed(lv)), [0] + [max(lv) + 1 - l for l in lv[1:-1]] + [0]):
            g2 = GlobalTrapezoidalGrid(np.array([a]), np.array([b]), boundary=bd, modified_basis=mod)
            g2.set_grid([pts], [alt])
            if not np.array_equal(np.asarray(g2.weights[0], dtype=float), w):
                fails.append(fail("depends_only_on_points", "points %r: weights change with level labelling %r" % (pts, alt), key))
                break
        # through the public integrate path
        from sparseSpACE.Function import CustomFunction
        f = CustomFunction(lambda x: [1.0, float(x[0])], output_length=2)
        val = np.asarray(g.integrate(f, [max(lv)], np.array([a]), np.array([b])), dtype=float).ravel()
        if lin:
            if not (np.max(np.abs(val - np.array([_exact(0, a, b), _exact(1, a, b)]))) <= 1e-12 * max(1.0, abs(a), abs(b)) * (b - a)):
                fails.append(fail("integrate_linear", "points %r: integrate gives %r" % (pts, list(val)), key))
        out.append(tuple(round(float(x), 12) for x in w))
    return fails, out


def _ref_highorder(pts, a, b, max_degree, boundary=True, modified=False):
    """reference model of the moment-matching rule (split_up=False): for d = 1, 2, ... the weights
    w_d = argmin sum w_i^2 / t_i  s.t.  sum w_i x_i^k = int x^k (k <= d)   (t = trapezoidal weights), i.e. sqrt(t) * (min-norm solution);
    the rule keeps the last d (<= max_degree, < number of points) before the first w_d with a negative weight.
    Returns (weights, degree, ambiguous) - ambiguous when a weight of some w_d is zero up to rounding, so the sign test can go either way."""
    from numpy.polynomial import legendre
    x = 2.0 * (np.asarray(pts, dtype=float) - a) / (b - a) - 1.0
    t = np.asarray(hats.trapezoid_weights([float(v) for v in x], boundary=boundary, modified=modified), dtype=float)
    if not boundary:
        # rule on the inner points only; the trapezoidal weights are renormalised so that constants are integrated exactly
        x = x[1:-1]
        t = t * 2.0 / np.sum(t)
    best, D, amb = t * (b - a) / 2.0, (1 if boundary or modified else 0), False
    if np.min(t) <= 0:
        return best, D, True      # the weighted inner product of the rule is not positive definite: no demand beyond the fallback
    d = 1
    while d < len(x) and d <= max_degree:
        V = legendre.legvander(x, d).T                      # (d+1) x n
        A = V * np.sqrt(t)
        m = np.zeros(d + 1)
        m[0] = 2.0
        y = np.linalg.lstsq(A, m, rcond=None)[0]
        w = np.sqrt(t) * y * (b - a) / 2.0
        if np.min(w) < 1e-12 * (b - a):
            if np.min(w) > -1e-12 * (b - a):
                amb = True
            break
        best, D = w, d
        d += 1
    return best, D, amb


def _highorder_nb(kind, g, f, order, pts, lv, a, b, key):
    """high-order rule WITHOUT boundary points (plain / modified basis): constants always, linear functions with the modified basis
    (>= 2 inner points), higher degrees as far as the reference model of the rule reaches them"""
    deg, split, mod = kind[1]
    fails = []
    try:
        g.set_grid([pts], [lv])
        val = np.asarray(g.integrate(f, [max(lv)], np.array([a]), np.array([b])), dtype=float).ravel()
        w = np.asarray(g.weights[0], dtype=float)
    except Exception as e:
        return [fail("rule_raises", "points %r: %s: %s" % (pts, type(e).__name__, str(e)[:100]), dict(key, exception=type(e).__name__))], ("exc", type(e).__name__)
    ninner = len(pts) - 2
    ref = _ref_highorder(pts, a, b, order, boundary=False, modified=mod)
    if not split and not ref[2] and (len(w) != len(ref[0]) or not (np.max(np.abs(w - ref[0])) <= 1e-9 * (b - a))):
        fails.append(fail("weights_equal_moment_matching_reference", "points %r: weights %r, reference (degree %d) %r" % (pts, list(w), ref[1], list(ref[0])), key))
    degs = []
    for q in range(order + 1):
        ex = _exactn(q, a, b)
        ok = abs(val[q] - ex) <= 1e-9 * (b - a)
        degs.append(ok)
        demanded = q == 0 or (q == 1 and mod and ninner >= 2) or (q <= ref[1] and not ref[2])
        if demanded and not ok:
            fails.append(fail("polynomial_exactness", "points %r: integral of ((x-a)/(b-a))^%d is %r, exact %r" % (pts, q, val[q], ex),
                              dict(key, degree=("constant" if q == 0 else "linear" if q == 1 else "higher"))))
            break
    return fails, tuple(degs)


def _hier_case(c):
    from sparseSpACE.Function import CustomFunction
    pts, lv, a, b = c["points"], c["levels"], c["a"], c["b"]
    fails = []
    out = []
    m = trees.is_complete_level(pts, a, b)
    for kind in HIER + (HIER_NB if len(pts) >= 3 else []):
        key = {"rule": kind[0], "order": str(kind[1])}
        g, order = _hier_grid(kind, a, b)
        # polynomial basis ((x-a)/(b-a))^k: the same space as the monomials, but well conditioned on intervals far from the origin
        f = CustomFunction(lambda x: [((float(x[0]) - a) / (b - a)) ** k for k in range(order + 1)], output_length=order + 1)
        if kind[0] == "bspline_nb_mod":
            # constants on every tree; linear functions from two inner points on (the level-1 function of the modified hierarchical
            # basis is the constant: x needs BOTH level-2 points - recorded in the key, the other trees are a known finding)
            g.set_grid([pts], [lv])
            val = np.asarray(g.integrate(f, [max(lv)], np.array([a]), np.array([b])), dtype=float).ravel()
            both = list(lv).count(2) == 2
            for q in ((0, 1) if len(pts) >= 4 else (0,)):
                if not (abs(val[q] - _exactn(q, a, b)) <= 1e-9 * (b - a)):
                    fails.append(fail("polynomial_exactness", "points %r: integral of ((x-a)/(b-a))^%d is %r, exact %r" % (pts, q, val[q], _exactn(q, a, b)),
                                      dict(key, degree=("constant" if q == 0 else "linear"), both_level2_points=both)))
                    break
            out.append(tuple(round(float(v), 9) for v in val))
            continue
        if kind[0] == "highorder_nb":
            fs, o = _highorder_nb(kind, g, f, order, pts, lv, a, b, key)
            fails.extend(fs)
            out.append(o)
            continue
        g.set_grid([pts], [lv])
        val = np.asarray(g.integrate(f, [max(lv)], np.array([a]), np.array([b])), dtype=float).ravel()
        # a linear function that changes sign so that its nodal values cancel (sum to zero over the grid, exactly for dyadic trees)
        tn = [(float(x) - a) / (b - a) for x in pts]
        mean = sum(tn) / len(tn)
        gz = _hier_grid(kind, a, b)[0]
        gz.set_grid([pts], [lv])
        vz = float(np.asarray(gz.integrate(CustomFunction(lambda x: ((float(x[0]) - a) / (b - a)) - mean), [max(lv)], np.array([a]), np.array([b])), dtype=float).ravel()[0])
        if not (abs(vz - (b - a) * (0.5 - mean)) <= 1e-9 * (b - a)):
            fails.append(fail("polynomial_exactness", "points %r: integral of the sign-changing linear function (x-a)/(b-a) - %r (nodal values sum to zero) is %r, exact %r"
                              % (pts, mean, vz, (b - a) * (0.5 - mean)), dict(key, degree="linear")))
        degs = []
        ref = None
        if kind[0] == "highorder" and not kind[1][1]:
            ref = _ref_highorder(pts, a, b, order)
            w = np.asarray(g.weights[0], dtype=float)
            if not ref[2] and (len(w) != len(ref[0]) or not (np.max(np.abs(w - ref[0])) <= 1e-9 * (b - a))):
                fails.append(fail("weights_equal_moment_matching_reference", "points %r: weights %r, reference (degree %d) %r" % (pts, list(w), ref[1], list(ref[0])), key))
            out.append(("deg", ref[1]))
        for q in range(order + 1):
            ex = _exactn(q, a, b)
            ok = abs(val[q] - ex) <= 1e-9 * (b - a)
            degs.append(ok)
            if kind[0] == "highorder":
                # "enough points" for this rule = non-negative moment-matching weights exist up to degree q (reference model);
                # splitting up never lowers the degree of the whole-grid rule
                if ref is None:
                    ref = _ref_highorder(pts, a, b, order)
                demanded = q <= 1 or (q <= ref[1] and not ref[2])
            else:
                demanded = q <= 1 or (2 ** m + 1 >= q + 1)
            if demanded and not ok:
                fails.append(fail("polynomial_exactness", "points %r (complete level %d): integral of ((x-a)/(b-a))^%d is %r, exact %r" % (pts, m, q, val[q], ex),
                                  dict(key, degree=("linear" if q <= 1 else "higher"))))
                break
        out.append(tuple(degs))
    return fails, out


def _tensor_case(c):
    from sparseSpACE.Grid import GlobalTrapezoidalGrid
    from sparseSpACE.Function import CustomFunction
    (p0, l0), (p1, l1) = c["trees"]
    a, b = c["a"], c["b"]
    fails = []
    out = []
    for bd, mod in ((True, False), (False, True)):
        key = {"rule": "trapezoidal_2d", "boundary": bd, "modified": mod}
        g = GlobalTrapezoidalGrid(np.array(a), np.array(b), boundary=bd, modified_basis=mod)
        g.set_grid([p0, p1], [l0, l1])
        P, W = g.get_points_and_weights()
        w0 = [float(x) for x in hats.trapezoid_weights(p0, boundary=bd, modified=mod)]
        w1 = [float(x) for x in hats.trapezoid_weights(p1, boundary=bd, modified=mod)]
        q0, q1 = (p0, p1) if bd else (p0[1:-1], p1[1:-1])
        want = {(float(x), float(y)): wx * wy for (x, wx) in zip(q0, w0) for (y, wy) in zip(q1, w1)}
        got = {tuple(float(t) for t in p): float(w) for p, w in zip(P, W)}
        if set(got) != set(want) or len(P) != len(want):
            fails.append(fail("tensor_points", "trees %r x %r" % (p0, p1), key))
        elif not (max(abs(got[p] - want[p]) for p in want) <= 1e-13):
            fails.append(fail("tensor_weights", "trees %r x %r" % (p0, p1), key))
        f = CustomFunction(lambda x: [1.0, float(x[0]), float(x[1]), float(x[0]) * float(x[1])], output_length=4)
        val = np.asarray(g.integrate(f, [max(l0), max(l1)], np.array(a), np.array(b)), dtype=float).ravel()
        ex = [(b[0] - a[0]) * (b[1] - a[1]), _exact(1, a[0], b[0]) * (b[1] - a[1]), (b[0] - a[0]) * _exact(1, a[1], b[1]),
              _exact(1, a[0], b[0]) * _exact(1, a[1], b[1])]
        if not (np.max(np.abs(val - np.array(ex))) <= 1e-11 * max(1.0, max(abs(x) for x in ex))):
            fails.append(fail("tensor_multilinear_exactness", "trees %r x %r: %r, exact %r" % (p0, p1, list(val), ex), key))
        out.append(len(P))
    return fails, out


def _tensor_hier_case(c):
    """d-dimensional tensor grids of the high-order and hierarchical rules (with boundary points): every multilinear monomial is exact on
    every tensor product of refinement trees; all monomials carried as ONE vector-valued function and, independently, one by one as
    scalar functions (the per-pole hierarchisation treats the output components and the poles of the other dimensions together)"""
    from sparseSpACE import Grid as G
    from sparseSpACE.Function import CustomFunction
    ts, a, b = c["trees"], c["a"], c["b"]
    d = len(ts)
    fails, out = [], []
    subsets = [S for k in range(d + 1) for S in itertools.combinations(range(d), k)]
    ex = np.array([float(np.prod([_exact(1, a[i], b[i]) if i in S else (b[i] - a[i]) for i in range(d)])) for S in subsets])
    mono = lambda x, S: float(np.prod([float(x[i]) for i in S])) if S else 1.0
    # sign-changing linear functions whose values cancel along every pole of their dimension
    means = [sum((float(p) - a[k]) / (b[k] - a[k]) for p in ts[k][0]) / len(ts[k][0]) for k in range(d)]
    vol = float(np.prod([b[k] - a[k] for k in range(d)]))
    zex = np.array([vol * (0.5 - means[k]) for k in range(d)])
    for kind in c["rules"]:
        name, arg = kind[0], (tuple(kind[1]) if isinstance(kind[1], list) else kind[1])
        key = {"rule": name + "_%dd" % d, "order": str(arg)}
        aa, bb = np.array(a, dtype=float), np.array(b, dtype=float)

        def make():
            if name == "highorder":
                return G.GlobalHighOrderGrid(aa, bb, boundary=True, max_degree=arg[0], split_up=arg[1])
            if name == "lagrange":
                return G.GlobalLagrangeGrid(aa, bb, boundary=True, p=arg)
            return G.GlobalBSplineGrid(aa, bb, boundary=True, p=arg)
        g = make()
        g.set_grid([list(t[0]) for t in ts], [list(t[1]) for t in ts])
        lv = [max(t[1]) for t in ts]
        fv = CustomFunction(lambda x: [mono(x, S) for S in subsets], output_length=len(subsets))
        val = np.asarray(g.integrate(fv, lv, aa, bb), dtype=float).ravel()
        tol = 1e-9 * max(1.0, float(np.max(np.abs(ex))))
        if val.shape != ex.shape or not (np.max(np.abs(val - ex)) <= tol):
            i = int(np.argmax(np.abs(val - ex))) if val.shape == ex.shape else 0
            fails.append(fail("tensor_multilinear_exactness", "trees %r: vector-valued integrand, monomial %r: %r, exact %r" % ([t[0] for t in ts], subsets[i], val[i] if val.shape == ex.shape else val.shape, ex[i]), dict(key, output="vector")))
        for i, S in enumerate(subsets):
            g1 = make()
            g1.set_grid([list(t[0]) for t in ts], [list(t[1]) for t in ts])
            v1 = float(np.asarray(g1.integrate(CustomFunction(lambda x, S=S: mono(x, S)), lv, aa, bb), dtype=float).ravel()[0])
            if not (abs(v1 - ex[i]) <= tol):
                fails.append(fail("tensor_multilinear_exactness", "trees %r: scalar integrand, monomial %r: %r, exact %r" % ([t[0] for t in ts], S, v1, ex[i]), dict(key, output="scalar")))
                break
        gz = make()
        gz.set_grid([list(t[0]) for t in ts], [list(t[1]) for t in ts])
        fz = CustomFunction(lambda x: [((float(x[k]) - a[k]) / (b[k] - a[k])) - means[k] for k in range(d)], output_length=d)
        vz = np.asarray(gz.integrate(fz, lv, aa, bb), dtype=float).ravel()
        if vz.shape != zex.shape or not (np.max(np.abs(vz - zex)) <= 1e-9 * max(1.0, vol)):
            fails.append(fail("tensor_multilinear_exactness", "trees %r: sign-changing linear functions x_k - mean_k (values cancel along every pole): %r, exact %r"
                              % ([t[0] for t in ts], vz.tolist(), zex.tolist()), dict(key, output="cancelling")))
        out.append(tuple(round(float(v), 9) for v in val))
    return fails, out


def _reuse_case(c):
    """ONE grid object receives a sequence of refinement trees (set_grid); after each the weights must equal those of a fresh object"""
    from sparseSpACE.Grid import GlobalTrapezoidalGrid
    a, b = c["a"], c["b"]
    fails, out = [], []
    rule = c["rule"]

    def make():
        if rule[0] == "trap":
            return GlobalTrapezoidalGrid(np.array([a]), np.array([b]), boundary=rule[1], modified_basis=rule[2])
        return _hier_grid((rule[0], tuple(rule[1]) if isinstance(rule[1], list) else rule[1]), a, b)[0]
    key = {"rule": rule[0], "oracle_kind": "object_reuse"}
    g = make()
    for step, (pts, lv) in enumerate(c["sequence"]):
        g.set_grid([list(pts)], [list(lv)])
        w1 = np.array(g.weights[0], dtype=float)
        f = make()
        f.set_grid([list(pts)], [list(lv)])
        w2 = np.array(f.weights[0], dtype=float)
        if w1.shape != w2.shape or not np.allclose(w1, w2, rtol=1e-12, atol=1e-14):
            i = int(np.argmax(np.abs(w1 - w2))) if w1.shape == w2.shape else 0
            fails.append(fail("reused_object_weights", "rule %r step %d (%d points) after %d earlier grids: weight %d is %r, fresh object %r" % (rule, step, len(pts), step, i, w1[i] if w1.shape == w2.shape else w1.shape, w2[i] if w1.shape == w2.shape else w2.shape), key))
            break
        out.append(len(pts))
    return fails, out


def run_case(case):
    c = case["config"]
    kind = c["kind"]
    fails, out = {"trap": _trap_case, "hier": _hier_case, "tensor": _tensor_case, "tensor_hier": _tensor_hier_case, "reuse": _reuse_case}[kind](c)
    return {"failures": fails, "canon": core.config_key(c), "outcome": tuple(out), "nontrivial": True, "evals": max(1, len(out))}


def cases(tier):
    out = []
    q = tier == "quick"
    fams = []
    for a, b in ((0.0, 1.0), (-3.0, 6.0)):
        fams.append((a, b, "dyadic", trees.tree_family(4, 6 if q else 8, a, b)))
    fams.append((0.0, 1.0, "third", trees.tree_family(3 if q else 4, 5 if q else 7, 0.0, 1.0, _mid_third)))
    # strongly graded trees (refinement towards an end point / an inner point), also on an interval far from the origin where the
    # mesh width falls below absolute and relative comparison tolerances
    fams.append((0.0, 1.0, "graded", trees.graded_chains(12 if q else 22, 0.0, 1.0, start=5)))
    fams.append((1000.0, 1001.0, "graded", trees.graded_chains(10 if q else 14, 1000.0, 1001.0, start=2)))
    # the trivial tree (end points only) and the single-split tree
    fams.append((0.0, 1.0, "dyadic", [([0.0, 1.0], [0, 0])]))
    fams.append((-3.0, 6.0, "dyadic", [([-3.0, 6.0], [0, 0])]))
    # integer-valued point sequences (Python ints): trees on [0, 16] whose points are all integers
    Tint = [([int(x) for x in p], l) for p, l in trees.tree_family(3, 4, 0.0, 16.0)]
    fams.append((0, 16, "dyadic", Tint))
    for a, b, split, T in fams:
        for pts, lv in T:
            out.append({"config": {"kind": "trap", "a": a, "b": b, "split": split, "points": pts, "levels": lv}})
            if split in ("dyadic", "graded") and (a == 0.0 or len(pts) <= 9 or split == "graded"):
                out.append({"config": {"kind": "hier", "a": a, "b": b, "split": split, "points": pts, "levels": lv}})
    # object reuse: ordered pairs (with repetition) of trees on ONE grid object, incl. complete trees with 17 and 33 points
    def complete(m, a, b):
        n = 2 ** m
        pts = [a + (b - a) * i / n for i in range(n + 1)]
        lv = [0] * (n + 1)
        for l in range(1, m + 1):
            off = 2 ** (m - l)
            for i in range(off, n, 2 * off):
                lv[i] = l
        return [pts, lv]
    for (a, b) in ((0.0, 1.0), (-1.0, 3.0)):
        cat = trees.catalan_trees(5, a, b, nmin=5)
        menu = [complete(2, a, b), complete(4, a, b), complete(5, a, b), list(cat[0]), list(cat[len(cat) // 2]), list(trees.all_trees_depth(4, a, b)[300])]
        rules = [["trap", True, False], ["trap", False, True]] + [[k[0], list(k[1]) if isinstance(k[1], tuple) else k[1]] for k in HIER]
        for rule in rules:
            for t0 in menu:
                for t1 in menu:
                    out.append({"config": {"kind": "reuse", "a": a, "b": b, "rule": rule, "sequence": [t0, t1, t0]}})
    T3 = trees.all_trees_depth(3, -1.0, 3.0)
    T3b = trees.all_trees_depth(3, 2.0, 4.0)
    for t0 in T3:
        for t1 in T3b:
            out.append({"config": {"kind": "tensor", "a": [-1.0, 2.0], "b": [3.0, 4.0], "trees": [list(t0), list(t1)]}})
    # high-order and hierarchical rules on d-dimensional tensor grids (anisotropic shifted boxes), vector-valued and scalar integrands
    rules = [[k[0], list(k[1]) if isinstance(k[1], tuple) else k[1]] for k in HIER]
    T2a, T2b = trees.all_trees_depth(3, -1.0, 3.0), trees.all_trees_depth(3, 2.0, 4.0)
    for t0 in T2a:
        for t1 in T2b:
            out.append({"config": {"kind": "tensor_hier", "a": [-1.0, 2.0], "b": [3.0, 4.0], "trees": [list(t0), list(t1)], "rules": rules}})
    T2c = trees.all_trees_depth(2, 0.0, 1.0)
    for t0, t1, t2 in itertools.product(trees.all_trees_depth(2, -1.0, 3.0) if q else T2a, trees.all_trees_depth(2, 2.0, 4.0), T2c):
        out.append({"config": {"kind": "tensor_hier", "a": [-1.0, 2.0, 0.0], "b": [3.0, 4.0, 1.0], "trees": [list(t0), list(t1), list(t2)],
                               "rules": [r for r in rules if r[0] != "highorder" or r[1] in ([3, True], [4, False])]}})
    return out


def main(ctx):
    cs = cases(ctx.tier)
    # conformance of the tree enumerator with the real refine() on a sample of the family (all trees up to depth 3)
    bad = [t for t in trees.all_trees_depth(3) if not trees.conformance_with_refine(t)]
    if bad:
        raise core.HarnessError("tree enumerator disagrees with RefinementObjectSingleDimension.refine() on %r" % (bad[0],))
    ctx.notes.append("tree enumerator == real refine() on all %d trees of depth <= 3" % len(trees.all_trees_depth(3)))
    ctx.determinism_probe(cs[len(cs) // 2])
    results = ctx.map(cs)
    for case, res in zip(cs, results):
        ctx.absorb(case, res, group=case["config"]["kind"])
    for i in (3, len(cs) // 2, len(cs) - 2):
        ctx.add_sample(cs[i])
    ctx.bounds = {"cases": len(cs), "trap_trees": sum(1 for c in cs if c["config"]["kind"] == "trap"),
                  "hier_trees": sum(1 for c in cs if c["config"]["kind"] == "hier"),
                  "tensor_pairs": sum(1 for c in cs if c["config"]["kind"] == "tensor"),
                  "tensor_hier_grids": sum(1 for c in cs if c["config"]["kind"] == "tensor_hier"),
                  "object_reuse_sequences": sum(1 for c in cs if c["config"]["kind"] == "reuse"), "rules": [str(k) for k in HIER]}
    return ctx.finish(
        rule="one case = one refinement tree (all trees with leaves at depth<=m united with all Catalan trees with <=n inner points; "
             "dyadic and 1/3 splits; [0,1] and [-3,6]) or one pair of trees (2D tensor grid on [-1,3]x[2,4]); per case every rule "
             "variant (trapezoid: boundary / zero boundary / modified; 10 high-order and hierarchical variants) is decided",
        assumptions=["sentence 2 of the statement is demanded with boundary points (the no-boundary / modified semantics are defined for the "
                     "trapezoidal rule only)", "'enough points' = the tree contains a complete dyadic level with >= q+1 points",
                     "tolerance 1e-13 for trapezoid weights, 1e-9 for rules that solve linear systems"])
