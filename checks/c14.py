"""C14 - interrupted, saved or resumed refinement ends where an uninterrupted run ends.

Crash-point enumeration: for every strategy/configuration/integrand the uninterrupted run U (final limits) is
recorded; then for EVERY evaluation index k of U a run is stopped exactly at k (max_evaluations = n_k - 1) and
continued with the final limits in five variants (continue directly / continue after reevaluate_at_end=True / through performSpatiallyAdaptiv(refinement_container=...) / save_to_file -> restore_from_file -> continue
the restored copy / save, continue the original, then restore and continue the copy).  Final refinement structure,
scheme, combined result and point count must equal U's; a restored instance must evaluate and interpolate
identically to the saved one.
"""
import os

import numpy as np

from mc import core, dw, es
from mc.core import fail
from checks import c13

PID = "C14"
LATTICE = [(x, y) for x in (0.1, 1 / 3, 0.6, 0.85) for y in (0.05, 0.5, 0.77)]


def _structure(sa, strat):
    if strat.startswith("dw"):
        return dw.canon(sa)
    if strat.startswith("es"):
        return es.canon(sa)
    return tuple(sorted((tuple(float(x) for x in k[0]), tuple(float(x) for x in k[1]), bool(c.active)) for k, c in sa.cell_dict.items()))


def _scheme(sa):
    return tuple(sorted((tuple(int(x) for x in c.levelvector), float(c.coefficient)) for c in sa.scheme))


def _final(sa, R, strat):
    return {"structure": _structure(sa, strat), "scheme": _scheme(sa), "lmax": tuple(int(x) for x in sa.lmax),
            "result": np.asarray(R[3], dtype=float).copy(), "points": int(R[6][-1])}


def _compare(u, x, what, key, fails):
    for k in ("structure", "scheme", "lmax", "points"):
        if u[k] != x[k]:
            fails.append(fail("final_%s_differs" % k, "%s: uninterrupted %r, resumed %r" % (what, str(u[k])[:300], str(x[k])[:300]), key))
    if u["result"].shape != x["result"].shape or not np.max(np.abs(u["result"] - x["result"])) <= 1e-12 * max(1.0, float(np.max(np.abs(u["result"])))):
        fails.append(fail("final_result_differs", "%s: uninterrupted %r, resumed %r" % (what, u["result"], x["result"]), key))


def _fs(x):
    return [1.0, float(x[0]) + 2.0 * float(x[-1]), float(np.exp(-3.0 * (x[0] - 0.3) ** 2) * (1.0 + x[-1] ** 2))]


def _scripted_case(case):
    """explorer part: the state is a scripted refinement history; EVERY split of it into a first run (k steps) and a continuation
    (both documented ways, and through save_to_file/restore_from_file) must end where the uninterrupted history ends"""
    c, hist = case["config"], case["history"]
    strat = c["scripted"]
    mod, kw = (dw, {}) if strat == "dw" else (es, {"strategy": strat})
    U = mod.build(c, hist, _fs, 3, **kw)

    def fin(r):
        return {"structure": _structure(r.sa, strat), "scheme": _scheme(r.sa) if strat == "dw" else None,
                "lmax": tuple(int(x) for x in np.ravel(r.sa.lmax)), "result": np.asarray(r.result[3], dtype=float).copy(),
                "points": int(r.sa.get_total_num_points())}
    u = fin(U)
    fails = []
    key = {"strategy": strat, "kind": "scripted_history"}
    for k in range(len(hist) + 1):
        for how in ("continue", "container", "save_restore"):
            X = mod.build(c, hist, _fs, 3, resume=(k, how), **kw)
            kk = dict(key, variant=how)
            if strat == "es" and how == "container" and c.get("version") == 2 and any(e[2] == "E" or (e[2] is None) for st in hist[:k] for e in st):
                # known finding: version 2 re-evaluates untouched areas after an extend elsewhere with a different (valid) local combination
                kk["version2_reevaluation_after_extend"] = True
            _compare(u, fin(X), "history of %d steps, stopped after %d, %s" % (len(hist), k, how), kk, fails)
    out = {"failures": fails, "canon": (strat, u["structure"], u["lmax"]), "outcome": (len(hist), not fails),
           "nontrivial": len(hist) >= 2, "evals": 1 + 3 * (len(hist) + 1)}
    if case.get("want_events"):
        if strat == "dw":
            out["events"] = dw.events_for(U.sa, c)
        elif strat == "es":
            out["events"] = es.events(U.sa, c)
        else:
            from checks import c04
            out["events"] = c04._cell_events(U.sa, c.get("s", 1))
    return out


def _standard_case(case):
    """save_to_file / restore_from_file are methods of StandardCombi: a restored standard combination must evaluate, interpolate and
    go on computing exactly like the saved one (second sentence of the statement for the non-adaptive class)"""
    import itertools
    from sparseSpACE.StandardCombi import StandardCombi
    from sparseSpACE.GridOperation import Integration
    from sparseSpACE import Grid as G
    from sparseSpACE.Function import CustomFunction
    c = case["config"]
    d = c["d"]
    a, b = np.array(c["a"], dtype=float), np.array(c["b"], dtype=float)
    key = {"strategy": "standard", "grid": c["grid"]}
    fails = []

    def make():
        if c["grid"] == "trapezoidal":
            grid = G.TrapezoidalGrid(a, b, boundary=c["boundary"])
        elif c["grid"] == "clenshaw_curtis":
            grid = G.ClenshawCurtisGrid(a, b, boundary=True)
        elif c["grid"] == "gauss_legendre":
            grid = G.GaussLegendreGrid(a, b)
        else:
            grid = G.LagrangeGrid(a, b, boundary=True, p=2)
        f = CustomFunction(lambda x: [float(np.sin(2.0 * x[0] + 0.3) * np.exp(0.5 * x[-1])), float(np.prod([xx * xx + 0.1 for xx in x]))], output_length=2)
        return StandardCombi(a, b, operation=Integration(f, grid=grid, dim=d), print_output=False, print_level=1000, log_level=1000)
    lat = [tuple(a[k] + t * (b[k] - a[k]) for k, t in enumerate(p)) for p in itertools.product((0.1, 1 / 3, 0.6, 0.85), repeat=d)]
    sc = make()
    _, _, res = sc.perform_operation(*c["first"])
    path = os.path.join(os.getcwd(), "c14_std_%d.dill" % os.getpid())
    sc.save_to_file(path)
    rs = StandardCombi.restore_from_file(path)
    os.remove(path)
    sch = lambda x: sorted((tuple(int(t) for t in g.levelvector), float(g.coefficient)) for g in x.scheme)
    if sch(rs) != sch(sc):
        fails.append(fail("restored_structure_differs", "scheme of the restored standard combination differs", key))
    v1, v2 = np.asarray(sc(lat), dtype=float), np.asarray(rs(lat), dtype=float)
    if v1.shape != v2.shape or not np.allclose(v1, v2, rtol=1e-13, atol=1e-15):
        fails.append(fail("restored_interpolation_differs", "max difference %r" % (float(np.max(np.abs(v1 - v2))) if v1.shape == v2.shape else None,), key))
    if rs.get_total_num_points() != sc.get_total_num_points():
        fails.append(fail("restored_point_count_differs", "%r vs %r" % (rs.get_total_num_points(), sc.get_total_num_points()), key))
    if not np.allclose(np.asarray(rs.operation.get_result(), dtype=float), np.asarray(res, dtype=float), rtol=1e-13, atol=1e-15):
        fails.append(fail("restored_result_differs", "%r vs %r" % (rs.operation.get_result(), res), key))
    # the restored object goes on computing: the next operation equals that of a fresh object (and of the saved one)
    fresh = make()
    _, _, r_fresh = fresh.perform_operation(*c["second"])
    _, _, r_rest = rs.perform_operation(*c["second"])
    _, _, r_orig = sc.perform_operation(*c["second"])
    for name, r in (("restored", r_rest), ("saved", r_orig)):
        if not np.allclose(np.asarray(r, dtype=float), np.asarray(r_fresh, dtype=float), rtol=1e-13, atol=1e-15):
            fails.append(fail("final_result_differs", "second operation %r on the %s object: %r, fresh object %r" % (c["second"], name, r, r_fresh), key))
    v3, v4 = np.asarray(rs(lat), dtype=float), np.asarray(fresh(lat), dtype=float)
    if v3.shape != v4.shape or not np.allclose(v3, v4, rtol=1e-13, atol=1e-15):
        fails.append(fail("restored_interpolation_differs", "after the second operation: max difference %r" % (float(np.max(np.abs(v3 - v4))) if v3.shape == v4.shape else None,), key))
    return {"failures": fails, "canon": core.config_key(c), "outcome": (tuple(c["first"]), tuple(c["second"]), not fails), "nontrivial": True}


def run_case(case):
    c = case["config"]
    if "standard" in c:
        return _standard_case(case)
    if "scripted" in c:
        return _scripted_case(case)
    strat, kind, norm = c["strategy"], c["integrand"], c["norm"]
    tol, mx_final = c["tol"], c["max_evaluations"]
    key = {"strategy": strat.split("_")[0]}
    if strat.startswith("es_lag"):
        key["grid"] = "lagrange"
    fails = []
    wr = c.get("reference", True)
    if not wr:
        key["reference"] = False
    sa, eo, lm, op, ref, seen, nrm = c13._make(strat, kind, norm, with_reference=wr)
    rf = strat.endswith("_recalc")        # periodic from-scratch recalculation of all areas (its schedule must survive an interruption)
    U = sa.performSpatiallyAdaptiv(lm[0], lm[1], eo, tol=tol, max_evaluations=mx_final, print_output=False, recalculate_frequently=rf)
    u = _final(sa, U, strat)
    nk = [int(x) for x in U[6]]
    if "stop_at" not in c:        # baseline: report the evaluation indices of the uninterrupted run
        return {"failures": fails, "canon": ("U", strat, kind, norm, tol, mx_final, wr), "outcome": tuple(nk), "nk": nk, "nontrivial": len(nk) > 1}
    k = c["stop_at"]
    variant = c["variant"]
    key["variant"] = variant
    sa2, eo2, lm, op2, ref, seen2, nrm = c13._make(strat, kind, norm, with_reference=wr)
    A = sa2.performSpatiallyAdaptiv(lm[0], lm[1], eo2, tol=tol, max_evaluations=nk[k] - 1, print_output=False, recalculate_frequently=rf,
                                    reevaluate_at_end=(variant == "reevaluated_at_end_then_continue"))
    if [int(x) for x in A[6]] != nk[:k + 1]:
        raise core.HarnessError("interrupted run did not stop at evaluation %d: %r vs %r" % (k, list(A[6]), nk))
    path = os.path.join(os.getcwd(), "c14_%d_%d.dill" % (os.getpid(), k))
    if variant in ("continue", "reevaluated_at_end_then_continue"):
        # (second variant: the stopped run re-evaluated its final combination from scratch before returning)
        R = sa2.continue_adaptive_refinement(tol=tol, max_evaluations=mx_final)
        _compare(u, _final(sa2, R, strat), "stop at evaluation %d, %s" % (k, variant), key, fails)
    elif variant == "perform_with_refinement_container":
        # the documented other way to continue: hand the refinement of the stopped run back to performSpatiallyAdaptiv
        R = sa2.performSpatiallyAdaptiv(lm[0], lm[1], eo2, tol=tol, max_evaluations=mx_final, print_output=False, refinement_container=A[0],
                                        recalculate_frequently=rf)
        _compare(u, _final(sa2, R, strat), "stop at evaluation %d, performSpatiallyAdaptiv(refinement_container=...)" % k, key, fails)
    else:
        sa2.save_to_file(path)
        if variant == "save_continue_original_then_copy":
            R0 = sa2.continue_adaptive_refinement(tol=tol, max_evaluations=mx_final)
            _compare(u, _final(sa2, R0, strat), "stop at %d, save, continue original" % k, key, fails)
        sa3 = type(sa2).restore_from_file(path)
        os.remove(path)
        if variant == "save_restore_continue":
            # the restored instance must behave like the saved one
            if _structure(sa3, strat) != _structure(sa2, strat) or _scheme(sa3) != _scheme(sa2):
                fails.append(fail("restored_structure_differs", "stop at %d" % k, key))
            if not strat.startswith("cell"):
                v2, v3 = np.asarray(sa2(LATTICE)), np.asarray(sa3(LATTICE))
                # (the restored scheme may list its component grids in another order: summation order, i.e. rounding, may differ)
                if v2.shape != v3.shape or not (float(np.max(np.abs(v2 - v3))) <= 1e-13 * max(1.0, float(np.max(np.abs(v2))))):
                    fails.append(fail("restored_interpolation_differs", "stop at %d: max diff %r" % (k, float(np.max(np.abs(v2 - v3)))), key))
            e2, e3 = sa2.evaluate_final_combi(), sa3.evaluate_final_combi()
            r2, r3 = np.asarray(e2[0], dtype=float), np.asarray(e3[0], dtype=float)
            if r2.shape != r3.shape or not (float(np.max(np.abs(r2 - r3))) <= 1e-13 * max(1.0, float(np.max(np.abs(r2))))) or e2[1] != e3[1]:
                fails.append(fail("restored_reevaluation_differs", "stop at %d: saved %r restored %r" % (k, e2, e3), key))
            # the re-evaluation above must not disturb anything: restore once more and continue that copy
            sa2.save_to_file(path)
            sa3 = type(sa2).restore_from_file(path)
            os.remove(path)
        R = sa3.continue_adaptive_refinement(tol=tol, max_evaluations=mx_final)
        _compare(u, _final(sa3, R, strat), "stop at %d, %s" % (k, variant), key, fails)
    return {"failures": fails, "canon": (strat, kind, norm, tol, mx_final, wr, k, variant), "outcome": (k, len(nk), variant, not fails),
            "nontrivial": 0 < k}


def main(ctx):
    q = ctx.tier == "quick"
    strategies = ["dw", "dw_noreb", "es", "es_v1", "cell"] if q else ["dw", "dw_noreb", "es", "es_v1", "es_auto", "cell"]
    kinds = ["peak", "vec"] if q else ["peak", "vec", "zero", "disc"]
    finals = [(1e-9, 80)] if q else [(1e-9, 80), (1e-9, 160), (1e-2, 300)]
    base = [{"config": {"strategy": s, "integrand": k, "norm": "inf", "tol": tol, "max_evaluations": mx}}
            for s in strategies for k in kinds for tol, mx in finals]
    # without a reference solution the run stops on the surplus error estimate: tolerances that end the run by tolerance
    noref = [(0.05, 400), (0.02, 400)] if q else [(0.05, 400), (0.02, 400), (0.01, 600)]
    base += [{"config": {"strategy": s, "integrand": k, "norm": "inf", "tol": tol, "max_evaluations": mx, "reference": False}}
             for s in (["dw", "es", "cell"] if q else strategies) for k in kinds[:2] for tol, mx in noref]
    # a hierarchical high-order local grid (three splits before an extend), with and without periodic from-scratch recalculation
    base += [{"config": {"strategy": s, "integrand": "peak", "norm": "inf", "tol": 1e-9, "max_evaluations": mx}} for s, mx in (("es_lag", 300), ("es_lag_recalc", 700))]
    if not q:
        base += [{"config": {"strategy": s, "integrand": k, "norm": "inf", "tol": 1e-9, "max_evaluations": 700}} for s in ("es_lag", "es_lag_recalc", "es_recalc") for k in ("peak", "vec")]
    ctx.determinism_probe(dict(config=dict(base[0]["config"], stop_at=1, variant="continue")))
    cases = []
    for bc, res in zip(base, ctx.map(base, chunksize=1)):
        ctx.absorb(bc, res, group="uninterrupted")
        nk = res.get("nk") or []
        for k in range(len(nk)):               # incl. the last index: a run stopped there by max_evaluations, then continued with the final limits
            for variant in ("continue", "save_restore_continue", "save_continue_original_then_copy", "perform_with_refinement_container",
                            "reevaluated_at_end_then_continue"):
                cases.append({"config": dict(bc["config"], stop_at=k, variant=variant)})
    results = ctx.map(cases, chunksize=1)
    for case, res in zip(cases, results):
        ctx.absorb(case, res, group=case["config"]["strategy"])
    for i in (0, len(cases) // 2, len(cases) - 1):
        ctx.add_sample(cases[i])
    ctx.bounds = {"strategies": strategies, "integrands": kinds, "final_limits": finals, "uninterrupted_runs": len(base),
                  "interruption_cases": len(cases)}
    # the non-adaptive class: save -> restore of a standard combination, every grid family x ordered pair of level ranges
    std = []
    for d, box in ((2, ([-1.0, 0.5], [2.0, 3.0])), (3, ([0.0, -1.0, 2.0], [1.0, 1.0, 3.0]))):
        for grid, bnd in (("trapezoidal", True), ("trapezoidal", False), ("clenshaw_curtis", True), ("gauss_legendre", True), ("lagrange2", True)):
            for first, second in (((1, 2), (1, 3)), ((2, 3), (1, 2)), ((1, 3), (1, 3))):
                if d == 3 and (q or grid == "lagrange2") and (first, second) != ((1, 2), (1, 3)):
                    continue
                std.append({"config": {"standard": True, "d": d, "a": box[0], "b": box[1], "grid": grid, "boundary": bnd, "first": list(first), "second": list(second)}})
    for case, res in zip(std, ctx.map(std, chunksize=1)):
        ctx.absorb(case, res, group="standard_combination")
    ctx.bounds["standard_combination_cases"] = len(std)
    # explorer part: scripted histories, every split point, both ways to continue
    T2 = [[0.3, 0.3], [0.3, 0.8]]
    scripted = [({"scripted": "dw", "d": 2, "lmin": 1, "lmax": 2, "version": 6, "rebalancing": True, "margin": 0.9, "safety": 0.1, "s": 1, "towards": T2}, 3 if q else 5),
                ({"scripted": "dw", "d": 2, "lmin": 1, "lmax": 2, "version": 6, "rebalancing": True, "margin": 0.9, "safety": 0.1, "s": 1}, 1 if q else 2),
                ({"scripted": "es", "d": 2, "lmin": 1, "lmax": 2, "version": 0, "nref": 1, "automatic": False, "single_dim": False, "s": 1, "towards": T2}, 3 if q else 5),
                ({"scripted": "es", "d": 2, "lmin": 1, "lmax": 2, "version": 0, "nref": 1, "automatic": False, "single_dim": False, "s": 1, "special": True}, 2 if q else 3),
                ({"scripted": "es", "d": 2, "lmin": 1, "lmax": 2, "version": 2, "nref": 1, "automatic": True, "single_dim": False, "s": 1, "towards": T2}, 2 if q else 4),
                ({"scripted": "cell", "d": 2, "lmin": 1, "lmax": 2, "s": 1, "special": True}, 2 if q else 3)]
    ctx.bounds["scripted_histories"] = []
    for config, D in scripted:
        tag = "scripted_%s_v%s_D%d%s" % (config["scripted"], config.get("version"), D, "_towards" if config.get("towards") else "")
        st = core.bfs(ctx, config, D, tag=tag)
        ctx.bounds["scripted_histories"].append(dict(st, tag=tag))
    return ctx.finish(
        rule="one case = (configuration, interruption point k, variant): run stopped exactly at evaluation k of the uninterrupted "
             "run (max_evaluations = n_k - 1), then continued / saved+restored+continued; ALL evaluation indices k of every "
             "uninterrupted run are enumerated; non-trivial = interruption strictly inside the run.  Explorer part: BFS over scripted "
             "refinement histories (dimension-wise, extend-split, cell); in every reached state the history is re-run with EVERY split "
             "point k = 0..len, both documented continuations and save->restore->continue the copy, and must end in the same structure/result",
        assumptions=["d=2, real estimators and integrands of the C13 menu; save/restore through the library's dill persistence into the "
                     "scratch directory", "results compared to 1e-12 relative, structures/schemes/point counts exactly"])
